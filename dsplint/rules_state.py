"""P1 PLAN-CONST-PURITY, P2 NO-SHARED-STATICS, P2b RNG-PER-THREAD  (C09, C10, C19)"""
import re

from .core import RuleResult, DISCHARGED, VIOLATED, UNMODELLED
from .flow import Flow

SYNC_TYPES = re.compile(r"std::(mutex|recursive_mutex|shared_mutex|timed_mutex|atomic<|atomic_flag|once_flag|condition_variable)")
ENGINE_TYPES = re.compile(r"std::(mersenne_twister_engine|linear_congruential_engine|subtract_with_carry_engine|"
                          r"discard_block_engine|independent_bits_engine|shuffle_order_engine)<")
DISTRIBUTION = re.compile(r"std::\w+_distribution<")
# distributions whose objects carry hidden state between draws (libstdc++: a cached deviate or an embedded normal distribution)
STATEFUL_DISTRIBUTION = re.compile(r"std::(normal|lognormal|gamma|chi_squared|fisher_f|student_t|poisson|binomial|negative_binomial)_distribution<")
ENTROPY_CALLS = re.compile(r"^(std::random_device::.*|rand|srand|std::rand|std::srand|random|srandom|drand48|lrand48|time|std::time|"
                           r"clock|std::clock|clock_gettime|gettimeofday|getpid|rdtsc|__rdtsc|getrandom|arc4random|"
                           r"std::chrono::.*::now|std::this_thread::get_id)$")
POINTER_LIKE = re.compile(r"^(const\s+)?(std::(shared_ptr|unique_ptr|weak_ptr)<\s*(?P<sp>.*)>|(?P<raw>.*\*))(\s*const)?$")


def _sig(f):
    return "(" + ",".join(p.get("t", "") for p in f.params) + ")"


def fkey(f):
    return f.name.replace(" ", "") + _sig(f).replace(" ", "")


# ------------------------------------------------------------------------------------------------
def plan_family(prog):
    """classes that have a method named solve, closed under the types of their data members"""
    fam = set()
    for nm, cj in prog.classes.items():
        if any(m["name"] == "solve" for m in cj["methods"]):
            fam.add(nm)
    changed = True
    while changed:
        changed = False
        for nm in list(fam):
            cj = prog.classes.get(nm)
            if not cj:
                continue
            for f in cj["fields"]:
                ct = f["ctype"]
                for other in prog.classes:
                    if other in fam:
                        continue
                    if re.search(r"(^|[\s<,(*&])%s($|[\s>,)*&])" % re.escape(other), ct):
                        # only classes of the library's own plan machinery (not base_array & co.)
                        ocj = prog.classes[other]
                        if _is_value_container(other):
                            continue
                        fam.add(other)
                        changed = True
    return fam


def _is_value_container(name):
    return (name.startswith("dsplib::base_array<") or name.startswith("dsplib::cmplx_t") or "slice_t" in name
            or "SliceIterator" in name)


def rule_P1(prog, fixture=False):
    res = RuleResult("P1", "every const member function of a transform-plan class writes no storage reachable from "
                           "the object: no use of a mutable member, no cast removing const, no non-const call or "
                           "non-const pointer argument rooted at a pointer-like member; the abstract plan bases "
                           "declare only const operations")
    fam = plan_family(prog)
    if not fam:
        res.broken.append("anchor vanished: no class with a method named solve (plan family empty)")
        return res
    res.stats["family"] = sorted(fam)
    n_methods = 0
    mutable_fields = []
    for nm in sorted(fam):
        cj = prog.classes[nm]
        for fld in cj["fields"]:
            if fld["mutable"]:
                mutable_fields.append("%s::%s" % (nm, fld["name"]))
    res.stats["mutable_fields"] = mutable_fields
    # (iv) abstract bases: only const operations
    for nm in sorted(fam):
        cj = prog.classes[nm]
        if not cj.get("abstract"):
            continue
        for m in cj["methods"]:
            if m["kind"] != "method" or m["static"] or m["implicit"]:
                continue
            key = "P1:%s::%s%s:const-op" % (nm, m["name"], m.get("sig", "").replace(" ", ""))
            if m["const"]:
                res.add(key, DISCHARGED, "%s:%d" % (prog.rel(cj["file"]), m["line"]), "%s::%s" % (nm, m["name"]),
                        "operation of the abstract plan interface is const")
            else:
                res.add(key, VIOLATED, "%s:%d" % (prog.rel(cj["file"]), m["line"]), "%s::%s" % (nm, m["name"]),
                        "abstract plan interface offers a non-const operation: a cached shared plan can be mutated")
    for f in sorted(prog.functions.values(), key=lambda f: (f.file, f.line, f.name)):
        if f.cls not in fam or not f.get("const") or f.kind != "method":
            continue
        n_methods += 1
        bad = _const_method_writes(prog, f, fam)
        key = "P1:" + fkey(f)
        where = "%s:%d" % (prog.rel(f.file), f.line)
        if bad:
            groups = {}
            for (line, what, why) in bad:
                tgt = what.split(":", 1)[1] if ":" in what else what
                groups.setdefault(tgt, []).append((line, what.split(":", 1)[0], why))
            for tgt, items in sorted(groups.items()):
                res.add(key + ":" + tgt, VIOLATED, "%s:%d" % (prog.rel(f.file), items[0][0]),
                        "%s const writes %s" % (f.short, tgt), "; ".join(w for (_, _, w) in items), func=f.name,
                        extra={"kinds": sorted({k for (_, k, _) in items})})
        else:
            res.add(key, DISCHARGED, where, "%s const" % f.short, "no write to object-reachable storage on any path",
                    func=f.name)
    res.stats["const_methods"] = n_methods
    res.stats["classes"] = len(fam)
    return res


def _const_method_writes(prog, f, fam):
    bad = []
    flow = Flow(f, prog)
    cls_fields = {}
    cj = prog.classes.get(f.cls)
    if cj:
        for fld in cj["fields"]:
            cls_fields[fld["name"]] = fld

    def this_rooted(n):
        return [r for r in flow.root(n) if r[0] == "this"]

    def written_this_rooted(n):
        t = n.strip_all()
        if t.k == "DeclRefExpr" and t.decl and t.decl.get("k") == "local" and not (t.decl.get("dt") or "").rstrip().endswith("&"):
            return []         # `++w`, `p = q` on a local pointer / iterator / value: the variable changes, not what it points into
        return this_rooted(n)

    # recognised idiom: a lock_guard / unique_lock / scoped_lock on a mutex member; what it precedes is serialised
    locks = []
    for v in f.walk():
        if v.k == "VarDecl" and re.search(r"std::(lock_guard|unique_lock|scoped_lock)<", v.type or "") and v.c:
            for x in v.c[0].walk():
                if x.k == "MemberExpr" and x.decl and x.decl.get("k") == "field" and SYNC_TYPES.search(x.decl.get("dt", "")):
                    locks.append(v)

    def under_lock(n):
        return any(f.precedes(l, n) for l in locks)

    def describe(roots):
        return ", ".join("this->" + r[1] for r in sorted(set(roots)))

    for n in f.walk():
        # (i) mutable member used at all (unless a synchronisation primitive)
        if locks and under_lock(n):
            continue
        if n.is_call() and n.callee and re.search(r"std::(lock_guard|unique_lock|scoped_lock)<", n.callee.get("cls", "") or ""):
            continue
        if n.k == "MemberExpr" and n.decl and n.decl.get("k") == "field" and n.decl.get("mutable"):
            if not SYNC_TYPES.search(n.decl.get("dt", "")):
                bad.append((n.line, "mutable-member:this->%s" % n.decl["n"],
                            "mutable member %s (%s) is accessed in a const operation; two threads sharing the plan race on it"
                            % (n.decl["n"], n.decl.get("dt", ""))))
        # (ii) casts that remove const
        if n.k == "CXXConstCastExpr":
            bad.append((n.line, "const_cast", "const_cast in a const plan operation: %s" % n.text()))
        if n.k == "CStyleCastExpr" and n.c:
            src = n.c[0].type or ""
            dst = n.type or ""
            if ("const " in src and "const " not in dst) and (n.tc == "ptr" or dst.endswith("&")):
                bad.append((n.line, "c-cast-removes-const", "C-style cast removes const: %s" % n.text()))
        # (iii) writes / non-const uses rooted at this
        if n.k in ("BinaryOperator", "CompoundAssignOperator") and n.op and n.op.endswith("=") and n.op not in ("==", "!=", "<=", ">="):
            r = written_this_rooted(n.c[0])
            if r:
                bad.append((n.line, "write:%s" % describe(r), "assignment through object state: %s" % n.text()))
        if n.k == "UnaryOperator" and n.op in ("++", "--") and n.c:
            r = written_this_rooted(n.c[0])
            if r:
                bad.append((n.line, "write:%s" % describe(r), "increment of object state: %s" % n.text()))
        if n.is_call() and n.callee:
            ce = n.callee
            obj = n.call_object()
            if obj is not None and "cls" in ce and not ce.get("const") and not ce.get("static") and n.k != "CXXConstructExpr":
                r = this_rooted(obj)
                if r and not _benign_nonconst(ce):
                    bad.append((n.line, "nonconst-call:%s" % describe(r),
                                "non-const member %s is called on storage reachable from the object (%s)" % (ce.get("name"), obj.text())))
            pm = ce.get("pm", [])
            for i, a in enumerate(n.call_args()):
                mode = pm[i] if i < len(pm) else "val"
                if mode in ("ptr", "ref"):
                    r = this_rooted(a)
                    if r:
                        bad.append((n.line, "nonconst-arg:%s" % describe(r),
                                    "%s is passed to the non-const %s parameter #%d of %s" % (a.text(), "pointer" if mode == "ptr" else "reference", i, ce.get("name"))))
    # de-duplicate by what
    seen = set()
    out = []
    for b in bad:
        if b[1] in seen:
            continue
        seen.add(b[1])
        out.append(b)
    return out


def _benign_nonconst(ce):
    # operator-> / operator* / get() of smart pointers are const already; begin()/end()/data() non-const overloads on a
    # this-rooted object can only be selected for mutable or pointed-to storage, which is what we want to see.
    return False


# ------------------------------------------------------------------------------------------------
def _p2_props(rel):
    # static storage anywhere in the library matters to thread safety, history independence and framing invariance; the
    # converters' own files additionally to C08 (two converters that share a work buffer are not two converters)
    return ["C06", "C09", "C10"] + (["C08"] if "resample" in rel else [])


def rule_P2(prog, fixture=False):
    res = RuleResult("P2", "every variable with static storage duration defined in the library is constexpr, const, "
                           "thread_local or a synchronisation primitive; no function-local static or namespace-scope "
                           "object is mutable and shared between threads")
    n = 0
    for key, s in sorted(prog.statics.items(), key=lambda kv: (kv[1]["file"], kv[1]["line"])):
        if "/facts/" in s["file"] and s["file"].endswith("coverage.cc"):
            continue
        n += 1
        where = "%s:%d" % (prog.rel(s["file"]), s["line"])
        name = s["name"] + ((" in " + s["func"]) if s.get("func") else "")
        okey = "P2:" + s["name"] + (("@" + s["func"]) if s.get("func") else "")
        ct = s["ctype"]
        px = {"props": _p2_props(prog.rel(s["file"]))}
        if s["constexpr"]:
            res.add(okey, DISCHARGED, where, name, "constexpr", extra=px)
        elif s["tls"]:
            res.add(okey, DISCHARGED, where, name, "thread_local (%s)" % s["type"], extra=dict(px, tls=True))
        elif SYNC_TYPES.search(ct):
            res.add(okey, DISCHARGED, where, name, "synchronisation primitive", extra=px)
        elif s["const"] and not (s.get("indirect") and not s.get("pointee_const")):
            res.add(okey, DISCHARGED, where, name, "const-qualified object, initialised once (thread-safe static init)", extra=px)
        else:
            res.add(okey, VIOLATED, where, name,
                    "mutable object of type %s with static storage duration is shared by all threads" % s["type"], extra=px)
    # P2d: a function-local static / thread_local is initialised once, by whichever call comes first
    for key, s in sorted(prog.statics.items(), key=lambda kv: (kv[1]["file"], kv[1]["line"])):
        if not s.get("static_local") or s["file"].endswith("coverage.cc"):
            continue
        okey = "P2d:" + s["name"] + "@" + (s.get("func") or "")
        where = "%s:%d" % (prog.rel(s["file"]), s["line"])
        name = "%s in %s" % (s["name"], s.get("func"))
        px = {"props": _p2_props(prog.rel(s["file"]))}
        if s.get("init_uses_this") or s.get("init_uses_param"):
            res.add(okey, VIOLATED, where, name,
                    "the initialiser (%s) depends on %s, but a function-local %s object is initialised only by the first call: later "
                    "calls with other values (another object, another argument) silently reuse the first one"
                    % (s.get("init_text"), "the object (this)" if s.get("init_uses_this") else "the arguments of the call",
                       "thread_local" if s["tls"] else "static"), extra=px)
        else:
            res.add(okey, DISCHARGED, where, name, "initialiser is independent of the call (%s)" % (s.get("init_text") or "default"), extra=px)
    # P2h: objects of namespace scope are constant-initialised.  One that needs code to run at program start (a vector filled by a
    # function) is empty for every call made before that - from the constructor of a static object in another translation unit
    for key, s in sorted(prog.statics.items(), key=lambda kv: (kv[1]["file"], kv[1]["line"])):
        if s.get("static_local") or s["file"].endswith("coverage.cc") or "dynamic_init" not in s:
            continue
        okey = "P2h:" + s["name"]
        where = "%s:%d" % (prog.rel(s["file"]), s["line"])
        rel_ = prog.rel(s["file"])
        px = {"props": _p2_props(rel_) + (["C15"] if rel_.endswith("primes.cpp") else []) + ["C05"]}
        if s["dynamic_init"]:
            res.add(okey, VIOLATED, where, s["name"],
                    "%s (%s) is initialised by code that runs at program start (%s): the order relative to static objects of other "
                    "translation units is unspecified, a library call made from one of their constructors finds it not yet initialised"
                    % (s["name"], s["type"], (s.get("init_text") or "")[:60]), extra=px)
        else:
            res.add(okey, DISCHARGED, where, s["name"], "constant-initialised", extra=px)
    # P2g: a pointer handed from thread to thread through an atomic needs an acquiring read on every way it can be obtained
    for f in sorted(prog.functions.values(), key=lambda g: (g.file, g.line, g.name)):
        if f.get("implicit") or f.file.endswith("coverage.cc"):
            continue
        k_in_f = 0
        for c in f.walk():
            if not (c.k == "CXXMemberCallExpr" and c.callee and "atomic" in (c.callee.get("cls") or c.callee.get("qn") or "")):
                continue
            obj = c.call_object()
            ot = (obj.type or "") if obj is not None else ""
            if "atomic<" not in ot or "*" not in ot.split("atomic<", 1)[1]:
                continue
            nm = (c.callee.get("qn") or "").rsplit("::", 1)[-1]
            if nm not in ("load", "exchange", "compare_exchange_strong", "compare_exchange_weak", "fetch_add", "fetch_sub"):
                continue
            relaxed = [a for a in c.call_args() if "memory_order_relaxed" in a.text() or "memory_order::relaxed" in a.text()]
            k_in_f += 1
            okey = "P2g:%s:%s#%d" % (f.name.replace("(anonymous namespace)::", "").split("(")[0], nm, k_in_f)
            where = "%s:%d" % (prog.rel(f.file), c.line)
            px = {"props": _p2_props(prog.rel(f.file))}
            if relaxed:
                res.add(okey, VIOLATED, where, "%s in %s" % (c.text()[:70], f.short),
                        "a pointer is read from an atomic that threads share under memory_order_relaxed (%s): the thread that obtains it "
                        "this way has no happens-before edge to the writes that filled what it points to, dereferencing it is a data race"
                        % ("the failure order of the exchange" if nm.startswith("compare_exchange") else nm), func=f.name, extra=px)
            else:
                res.add(okey, DISCHARGED, where, "%s in %s" % (c.text()[:70], f.short), "no relaxed order on a shared pointer", func=f.name, extra=px)
    res.stats["static_objects"] = n
    res.stats["thread_local"] = sorted(o.what for o in res.obs if o.extra.get("tls"))
    return res


def _returns_tls_engine(prog, usr, engine_names):
    g = prog.functions.get(usr)
    if g is None:
        return False
    rets = [n for n in g.walk() if n.k == "ReturnStmt" and n.c]
    if not rets or not (g.get("ret") or "").endswith("&"):
        return False
    for r in rets:
        e = r.c[0].strip_all()
        if not (e.k == "DeclRefExpr" and e.decl.get("k") == "global" and e.decl.get("tls") and e.decl.get("qn") in engine_names):
            return False
    return True


def rule_P2b(prog, fixture=False):
    res = RuleResult("P2b", "exactly one random engine exists, it is thread_local, every distribution draws from it, "
                            "and no other entropy source (random_device, rand, clocks) is called anywhere in the library")
    engines = [s for s in prog.statics.values() if ENGINE_TYPES.search(s["ctype"])]
    for s in engines:
        where = "%s:%d" % (prog.rel(s["file"]), s["line"])
        okey = "P2b:engine:" + s["name"]
        if s["tls"] and s.get("init_uses_mutable_global"):
            res.add(okey, VIOLATED, where, s["name"], "the per-thread engine is initialised from mutable shared state (%s): seeding in one "
                    "thread changes the sequence a thread that starts drawing later observes" % s.get("init_text"))
        elif s["tls"]:
            res.add(okey, DISCHARGED, where, s["name"], "engine is thread_local and starts from a constant")
        else:
            res.add(okey, VIOLATED, where, s["name"], "random engine with static storage is not thread_local: draws in "
                    "one thread change the sequence another thread observes")
    if not engines:
        res.broken.append("anchor vanished: no random engine object with static storage found")
    if len(engines) > 1:
        for s in engines[1:]:
            res.add("P2b:second-engine:" + s["name"], VIOLATED, "%s:%d" % (prog.rel(s["file"]), s["line"]), s["name"],
                    "a second static engine exists: rng(seed) cannot reproduce draws taken from it")
    # P2c: a distribution object that outlives the call keeps hidden state (the cached second normal deviate, ...)
    # which rng(seed) does not reset: reproducibility then depends on how many values were drawn before
    reset_in_rng = set()
    for f in prog.functions.values():
        if f.qn.rsplit("::", 1)[-1] == "rng":
            for n in f.walk():
                if n.k == "CXXMemberCallExpr" and n.callee and n.callee.get("qn", "").endswith("::reset"):
                    o = n.call_object()
                    o = o.strip_all() if o is not None else None
                    if o is not None and o.k == "DeclRefExpr" and o.decl.get("k") == "global":
                        reset_in_rng.add(o.decl.get("qn"))
    for sv in sorted(prog.statics.values(), key=lambda x: (x["file"], x["line"])):
        if STATEFUL_DISTRIBUTION.search(sv["ctype"]):
            if sv["name"] in reset_in_rng:
                res.add("P2b:static-distribution:" + sv["name"], DISCHARGED, "%s:%d" % (prog.rel(sv["file"]), sv["line"]), sv["name"],
                        "stateful distribution with static storage is reset by rng()")
                continue
            res.add("P2b:static-distribution:" + sv["name"], VIOLATED, "%s:%d" % (prog.rel(sv["file"]), sv["line"]), sv["name"],
                    "distribution object of type %s has static storage duration: its internal state survives rng(seed), so the "
                    "stream after re-seeding depends on earlier draws" % sv["type"])
    for cn, cj in sorted(prog.classes.items()):
        for fld in cj["fields"]:
            if STATEFUL_DISTRIBUTION.search(fld["ctype"]):
                res.add("P2b:member-distribution:%s::%s" % (cn, fld["name"]), VIOLATED, "%s:%d" % (prog.rel(cj["file"]), fld["line"]),
                        "%s::%s" % (cn, fld["name"]), "distribution object kept as a data member: hidden state outside the control of rng(seed)")
    engine_names = {s["name"] for s in engines}
    draws = 0
    for f in sorted(prog.functions.values(), key=lambda f: (f.file, f.line)):
        if f.file.endswith("coverage.cc") or f.get("lambda"):
            continue          # a lambda's body is analysed in line in its enclosing function, where its captures are defined
        for n in f.walk():
            if n.k == "VarDecl" and n.decl.get("k") == "local" and ENGINE_TYPES.search(n.type or "") and (n.get("ts") or "").endswith("&"):
                continue      # a local *reference* to the engine is not a second engine
            if n.k == "VarDecl" and n.decl.get("k") == "local" and ENGINE_TYPES.search(n.type or ""):
                res.add("P2b:local-engine:%s:%s" % (fkey(f), n.decl["n"]), VIOLATED, "%s:%d" % (prog.rel(f.file), n.line),
                        "%s in %s" % (n.decl["n"], f.short), "a local engine object is an entropy source rng(seed) does not control")
            if not n.is_call() or not n.callee:
                continue
            ce = n.callee
            qn = ce.get("qn", "")
            if ENTROPY_CALLS.match(qn) and not ce.get("repo"):
                res.add("P2b:entropy:%s:%s" % (fkey(f), qn), VIOLATED, "%s:%d" % (prog.rel(f.file), n.line),
                        "%s in %s" % (qn, f.short), "call of an entropy source other than the per-thread engine")
            if n.k in ("CXXConstructExpr", "CXXTemporaryObjectExpr") and "std::random_device" in (n.type or ""):
                res.add("P2b:entropy:%s:random_device" % fkey(f), VIOLATED, "%s:%d" % (prog.rel(f.file), n.line),
                        "std::random_device in %s" % f.short, "non-deterministic entropy source")
            if n.k == "CXXOperatorCallExpr" and n.op == "()" and DISTRIBUTION.search(ce.get("cls", "")):
                draws += 1
                args = n.call_args()
                ok = False
                if args:
                    a = args[0].strip_all()
                    if a.k == "DeclRefExpr" and a.decl.get("k") == "global" and a.decl.get("qn") in engine_names and a.decl.get("tls"):
                        ok = True
                    elif a.k == "CallExpr" and a.callee and _returns_tls_engine(prog, a.callee.get("usr"), engine_names):
                        ok = True       # accessor idiom: engine() { thread_local std::mt19937 e; return e; }
                    elif a.k == "DeclRefExpr" and a.decl.get("k") == "local":
                        # std::mt19937& engine = _engine();  (possibly captured by a lambda)
                        from .ir import _single_def
                        init = _single_def(a)
                        if init is not None:
                            i0 = init.strip_all()
                            if i0.k == "CallExpr" and i0.callee and _returns_tls_engine(prog, i0.callee.get("usr"), engine_names):
                                ok = True
                            elif i0.k == "DeclRefExpr" and i0.decl.get("k") == "global" and i0.decl.get("qn") in engine_names and i0.decl.get("tls"):
                                ok = True
                okey = "P2b:draw:%s:l%d" % (fkey(f), 0)
                if ok:
                    res.add("P2b:draw:%s" % fkey(f), DISCHARGED, "%s:%d" % (prog.rel(f.file), n.line),
                            "%s in %s" % (n.text(), f.short), "distribution draws from the per-thread engine")
                else:
                    res.add("P2b:draw:%s:foreign-engine" % fkey(f), VIOLATED, "%s:%d" % (prog.rel(f.file), n.line),
                            "%s in %s" % (n.text(), f.short), "distribution does not draw from the single thread_local engine")
    res.stats["engines"] = [s["name"] for s in engines]
    res.stats["draw_sites"] = draws
    return res


# =================================================================================================
# P3 HANDLE-COPY: an object that is copied member-wise must not share mutable state with its copy  (C06, C09)
def _through_field(n, fields):
    """the smart-pointer member (name) whose *pointee* expression n denotes:  _d->x, (*_d).x, _d.get()->x, *_d;
    None for the pointer object itself (_d, _d.reset())"""
    x = n.strip_all() if n is not None else None
    deref = False
    for _ in range(8):
        if x is None:
            return None
        if x.k == "CXXOperatorCallExpr" and x.op in ("->", "*") and len(x.c) >= 2:
            x = x.c[1].strip_all()
            deref = True
            continue
        if x.k == "UnaryOperator" and x.op == "*" and x.c:
            x = x.c[0].strip_all()
            continue
        if x.k == "CXXMemberCallExpr" and x.callee and (x.callee.get("qn") or "").endswith("::get") and x.call_object() is not None:
            x = x.call_object().strip_all()
            deref = True
            continue
        if x.k == "MemberExpr" and x.decl and x.decl.get("k") == "field":
            base = x.c[0].strip_all() if x.c else None
            if (base is None or base.k == "CXXThisExpr") and x.decl.get("n") in fields:
                return x.decl["n"] if deref else None
            if base is not None:
                x = base          # a member of the pointee:  _d->maflt
                continue
            return None
        return None
    return None


def _user_copy_shares(prog, cls, fld):
    """does a user-provided copy constructor / copy assignment of cls initialise or assign `fld` from the same member of its
    argument (rhs._d), i.e. copy the pointer?"""
    short = cls.rsplit("::", 1)[-1]
    for f in prog.functions.values():
        if f.cls != cls or f.get("implicit") or len(f.params) != 1:
            continue
        pt = f.params[0].get("t", "")
        if not (f.params[0].get("ref") and re.search(r"(^|[\s:])%s\b" % re.escape(short), pt)):
            continue
        if not (f.kind in ("ctor", "copy_ctor") or f.name.endswith("operator=")):
            continue
        pn = f.params[0]["n"]

        def from_rhs(e):
            e = e.strip_all()
            while e.k in ("CXXConstructExpr", "InitListExpr", "MaterializeTemporaryExpr", "CXXBindTemporaryExpr") and len(e.c) == 1:
                e = e.c[0].strip_all()
            if e.k == "MemberExpr" and e.decl and e.decl.get("n") == fld and e.c:
                b = e.c[0].strip_all()
                return b.k == "DeclRefExpr" and b.decl and b.decl.get("n") == pn
            return False
        for init in f.ctor_inits():
            if init.get("member") == fld and init.c and from_rhs(init.c[0]):
                return True
        for n in f.walk():
            if n.k in ("BinaryOperator", "CXXOperatorCallExpr") and n.op == "=":
                kids = n.c if n.k == "BinaryOperator" else n.c[1:]
                if len(kids) == 2:
                    l = kids[0].strip_all()
                    if l.k == "MemberExpr" and l.decl and l.decl.get("n") == fld and from_rhs(kids[1]):
                        return True
    return False


def rule_P3(prog, fixture=False):
    res = RuleResult("P3", "a class whose objects are copied member-wise (implicit or defaulted copy operations) and that keeps "
                           "state behind a std::shared_ptr member never changes that state through the pointer: otherwise a copy and "
                           "its original are two objects with one state - they influence one another, and using them from two "
                           "threads is a data race")
    n_cls = 0
    for nm in sorted(prog.classes):
        cj = prog.classes[nm]
        if cj.get("inst") and not fixture:
            pass
        sp = {f["name"]: f for f in cj["fields"] if f["ctype"].startswith("std::shared_ptr<") or f["ctype"].startswith("const std::shared_ptr<")}
        if not sp or cj["file"].endswith("coverage.cc"):
            continue
        n_cls += 1
        where = "%s:%d" % (prog.rel(cj["file"]), cj["line"])
        muts = {}            # field -> [(function, node, why)]
        for f in prog.functions.values():
            if f.cls != nm or f.get("implicit") or f.kind in ("ctor", "copy_ctor", "move_ctor", "dtor"):
                continue
            for n in f.walk():
                fld, why = None, None
                if n.k == "CXXMemberCallExpr" and n.callee and not n.callee.get("const") and not n.callee.get("static"):
                    fld = _through_field(n.call_object(), sp)       # _d.reset(..) re-seats the pointer: not the pointee
                    why = "calls the non-const %s on the shared object" % (n.callee.get("qn") or "?").rsplit("::", 1)[-1]
                elif n.k in ("BinaryOperator", "CompoundAssignOperator") and n.op and n.op.endswith("=") and n.op not in ("==", "!=", "<=", ">=") and n.c:
                    l = n.c[0].strip_all()
                    if l.k == "MemberExpr" and l.c:
                        fld = _through_field(l, sp)
                        why = "assigns %s of the shared object" % l.text()
                    elif l.k in ("CXXOperatorCallExpr", "UnaryOperator"):
                        fld = _through_field(l, sp)
                        why = "assigns the shared object (%s)" % l.text()
                elif n.is_call() and n.callee and n.k not in ("CXXMemberCallExpr",):
                    pm = n.callee.get("pm", [])
                    for i, a in enumerate(n.call_args()):
                        if i < len(pm) and pm[i] in ("ref", "ptr"):
                            g = _through_field(a, sp)
                            if g is not None:
                                fld, why = g, "passes the shared object to %s by non-const reference" % (n.callee.get("qn") or "?")
                if fld is not None:
                    muts.setdefault(fld, []).append((f, n, why))
        for fld in sorted(sp):
            key = "P3:%s::%s" % (nm, fld)
            what = "%s::%s (%s)" % (nm, fld, sp[fld]["type"])
            extra = {"props": ["C06", "C09"], "copy": cj.get("copy")}
            if not muts.get(fld):
                res.add(key, DISCHARGED, where, what, "the pointee is never modified through this member: sharing it between copies is harmless", extra=extra)
            elif cj.get("copy") in ("deleted", "user") and cj.get("copy_assign", "memberwise") in ("deleted", "user") \
                    and not _user_copy_shares(prog, nm, fld):
                res.add(key, DISCHARGED, where, what, "copy construction is %s and copy assignment is %s; neither hands the pointer itself to the copy" % (
                    "deleted" if cj.get("copy") == "deleted" else "user-provided",
                    "deleted" if cj.get("copy_assign") == "deleted" else "user-provided"), extra=extra)
            else:
                (f, n, why) = sorted(muts[fld], key=lambda t: (t[0].file, t[1].line))[0]
                res.add(key, VIOLATED, "%s:%d" % (prog.rel(f.file), n.line), what,
                        "%s %s (%s), and copying a %s (copy construction: %s, copy assignment: %s) copies the pointer only: the "
                        "copy and the original share that state"
                        % (f.short, why, n.text()[:70], nm.rsplit("::", 1)[-1], cj.get("copy"), cj.get("copy_assign")), func=f.name, extra=extra,
                        path=["%s:%d %s" % (prog.rel(g.file), m.line, m.text()[:80]) for (g, m, _) in muts[fld][:6]])
    res.stats["classes_with_shared_ptr_member"] = n_cls
    if not n_cls and not fixture:
        res.broken.append("anchor vanished: no class with a std::shared_ptr member")
    return res


# =================================================================================================
# P3b ONE-OWNER: a pointer to mutable state that a function hands out is not also kept in a long-lived container  (C06)
KEEP_METHODS = {"put", "insert", "emplace", "push_back", "emplace_back", "push_front", "emplace_front", "insert_or_assign", "try_emplace", "operator[]"}


def rule_P3b(prog, fixture=False):
    from .rules_extra import _stateful_classes
    res = RuleResult("P3b", "a std::shared_ptr to an object with mutable state (a class, or a base of a class, whose non-const member "
                            "functions write members) that a function returns is not also stored by that function in a container "
                            "with static storage duration or in a member container: the caller and the container would then own "
                            "one state (immutable objects - transform plans - may be shared this way)")
    stateful = set(_stateful_classes(prog))
    # a base class is stateful when a class derived from it is
    changed = True
    while changed:
        changed = False
        for nm, cj in prog.classes.items():
            if nm in stateful:
                for b in cj.get("bases", []):
                    bt = b.get("type")
                    if bt and bt not in stateful:
                        stateful.add(bt)
                        changed = True
    n = 0
    for f in sorted(prog.functions.values(), key=lambda f: (f.file, f.line, f.name)):
        if f.get("implicit") or f.file.endswith("coverage.cc"):
            continue
        rt = f.get("ret", "") or ""
        locals_sp = {}
        for v in f.walk():
            if v.k == "VarDecl" and v.decl and v.decl.get("k") == "local":
                ty = v.decl.get("dt") or v.type or ""
                m = re.match(r"^(const )?std::shared_ptr<(.*)>$", ty.strip())
                if m and m.group(2).strip() in stateful:
                    locals_sp[v.decl["id"]] = (v, m.group(2).strip())
        if not locals_sp:
            continue
        rel = prog.rel(f.file)
        for vid, (v, pointee) in sorted(locals_sp.items()):
            n += 1
            key = "P3b:%s:%s" % (fkey(f), v.decl["n"])
            where = "%s:%d" % (rel, v.line)
            what = "std::shared_ptr<%s> %s in %s" % (pointee.rsplit("::", 1)[-1], v.decl["n"], f.short)
            extra = {"props": ["C06"]}
            kept, handed = None, None
            for x in f.walk():
                if x.k == "CXXMemberCallExpr" and x.callee and (x.callee.get("qn") or "").rsplit("::", 1)[-1] in KEEP_METHODS:
                    o = x.call_object()
                    o0 = o.strip_all() if o is not None else None
                    long_lived = False
                    if o0 is not None and o0.k == "DeclRefExpr" and o0.decl and (o0.decl.get("k") == "global" or o0.decl.get("sl")):
                        long_lived = True
                    if o0 is not None and o0.k == "MemberExpr" and o0.decl and o0.decl.get("k") == "field":
                        long_lived = True
                    if long_lived and any(a.strip_all().k == "DeclRefExpr" and a.strip_all().decl and a.strip_all().decl.get("id") == vid
                                          for a in _args_deep(x)):
                        kept = x
                if x.k == "ReturnStmt" and x.c:
                    e = x.c[0].strip_all()
                    while e.k in ("CXXConstructExpr", "MaterializeTemporaryExpr", "CXXBindTemporaryExpr", "ExprWithCleanups") and len(e.c) == 1:
                        e = e.c[0].strip_all()
                    if e.k == "DeclRefExpr" and e.decl and e.decl.get("id") == vid:
                        handed = x
            if kept is not None and handed is not None:
                res.add(key, VIOLATED, "%s:%d" % (rel, kept.line), what,
                        "%s keeps the pointer in a container that outlives the call, and line %d returns the same pointer: whoever "
                        "receives it advances the state of the stored object, and everything later built from the stored one starts "
                        "from that history" % (kept.text()[:70], handed.line), func=f.name, extra=extra)
            else:
                res.add(key, DISCHARGED, where, what, "not both stored in a long-lived container and returned", func=f.name, extra=extra)
    res.stats["shared_ptr_locals_to_stateful_objects"] = n
    return res


def _args_deep(call):
    out = []
    for a in call.call_args():
        out.append(a)
        a0 = a.strip_all()
        while a0.k in ("CXXConstructExpr", "MaterializeTemporaryExpr", "CXXBindTemporaryExpr") and len(a0.c) == 1:
            a0 = a0.c[0].strip_all()
            out.append(a0)
    return out


# =================================================================================================
# P4 NON-REENTRANT-CALLEE: no library function reaches a C library routine that keeps hidden process-wide state  (C09)
NON_REENTRANT = {
    "lgamma": "writes the global signgam", "lgammaf": "writes the global signgam", "lgammal": "writes the global signgam",
    "gamma": "writes the global signgam", "gammaf": "writes the global signgam",
    "__builtin_lgamma": "writes the global signgam", "__builtin_lgammaf": "writes the global signgam", "__builtin_lgammal": "writes the global signgam",
    "strtok": "keeps its position in a static", "asctime": "returns a static buffer", "ctime": "returns a static buffer",
    "gmtime": "returns a static struct", "localtime": "returns a static struct", "strerror": "may return a static buffer",
    "tmpnam": "static buffer", "setlocale": "changes the process-wide locale", "rand": "hidden generator state",
    "srand": "hidden generator state", "random": "hidden generator state", "srandom": "hidden generator state",
    "drand48": "hidden generator state", "lrand48": "hidden generator state", "mrand48": "hidden generator state", "srand48": "hidden generator state",
    "_mm_setcsr": "changes the calling thread's floating-point mode (flush-to-zero, rounding) for everything that runs later in that thread",
    "__builtin_ia32_ldmxcsr": "changes the calling thread's floating-point mode for everything that runs later in that thread",
    "fesetround": "changes the calling thread's rounding mode for everything that runs later in that thread",
    "fesetenv": "replaces the calling thread's floating-point environment", "feupdateenv": "replaces the calling thread's floating-point environment",
    "_controlfp": "changes the floating-point control word",
    "readdir": "static dirent", "getpwnam": "static struct", "getpwuid": "static struct", "ecvt": "static buffer", "fcvt": "static buffer",
}


def rule_P4(prog, fixture=False):
    res = RuleResult("P4", "no function of the library reaches - directly or through standard-library code instantiated in the "
                           "library (std::cyl_bessel_i -> lgamma) - a C library routine with hidden process-wide state: two threads "
                           "inside such a routine race although they share no object of the library")
    n_funcs = 0
    hits = 0
    for f in sorted(prog.functions.values(), key=lambda f: (f.file, f.line, f.name)):
        if f.file.endswith("coverage.cc") or f.get("implicit"):
            continue
        n_funcs += 1
        # walk external code only: a repository callee is its own obligation
        seen, work, found = set(), [], None
        for c in f.get("calls", []):
            u = c["usr"]
            if u not in prog.functions:
                work.append((u, [u], c.get("l")))
        while work and found is None:
            u, path, line = work.pop()
            if u in seen:
                continue
            seen.add(u)
            m = re.match(r"c:@F@([A-Za-z_0-9]+)$", u)
            if m and m.group(1) in NON_REENTRANT:
                found = (m.group(1), path, line)
                break
            e = prog.ext_edges.get(u)
            if e is None or len(seen) > 4000:
                continue
            for c2 in e["c"]:
                if c2 not in prog.functions and c2 not in seen:
                    work.append((c2, path + [c2], line))
        if found is not None:
            hits += 1
            name, path, line = found
            nice = []
            for u in path[:6]:
                m = re.search(r"@F@([A-Za-z_0-9]+)", u)
                nice.append(m.group(1) if m else u[:30])
            res.add("P4:%s:%s" % (fkey(f), name), VIOLATED, "%s:%d" % (prog.rel(f.file), line or f.line), "%s reaches %s" % (f.short, name),
                    "%s %s (via %s): calls from different threads race on that state or see what another call left there, whatever objects they use" % (
                        name, NON_REENTRANT[name], " -> ".join(nice)), func=f.name, extra={"props": ["C09"]})
    res.add("P4:library", DISCHARGED if not hits else VIOLATED, "-", "all %d library functions" % n_funcs,
            "no function reaches one of the %d tabulated non-reentrant C routines through external code" % len(NON_REENTRANT) if not hits
            else "%d function(s) reach a non-reentrant C routine" % hits, extra={"props": ["C09"]})
    res.stats["functions"] = n_funcs
    return res


# ------------------------------------------------------------------------------------------------
# M1: a value kept in static storage between calls is keyed by everything it was computed from
_M1_SIZE = {"size", "empty", "length"}
_M1_ADDR = {"data", "begin", "end", "cbegin", "cend"}


def _m1_address_of_param(v):
    """x.data() / x.begin() / &x of a parameter: the value is an address"""
    e = v.strip_all()
    if e.k == "CXXMemberCallExpr" and not e.call_args():
        nm = ((e.callee or {}).get("qn") or "").rsplit("::", 1)[-1]
        o = e.call_object()
        o = o.strip_all() if o is not None else None
        if nm in _M1_ADDR and o is not None and o.k == "DeclRefExpr" and o.decl and o.decl.get("k") == "parm":
            return o.decl["n"]
    if e.k == "UnaryOperator" and e.op == "&" and e.c:
        o = e.c[0].strip_all()
        if o.k == "DeclRefExpr" and o.decl and o.decl.get("k") == "parm":
            return o.decl["n"]
    return None


def _m1_props(rel):
    out = ["C10"]
    if rel.endswith("primes.cpp"):
        out.append("C15")
    if rel.endswith(("corr.cpp", "medfilt.cpp", "math.cpp")):
        out.append("C16")
    if rel.startswith("lib/fft/") or rel.endswith(("stft.cpp", "fft.cpp", "ifft.cpp", "czt.cpp")):
        out.append("C02")
    if rel.endswith(("snr.cpp", "awgn.cpp", "random.cpp", "thd.cpp", "sinad.cpp")):
        out.append("C19")
    if "lib/resample/" in rel or rel.endswith("resample.cpp"):
        out.append("C08")
    if rel.endswith(("window.cpp", "fir.cpp")):
        out.append("C11")
    return out


def _m1_mentions_kept(expr, defs, seen=None):
    """does the condition look at anything kept between calls (the kept object or another static of the function)?  A test of
    the arguments alone ( if (issorted(x)) return ... ) decides something, but it is not a comparison with a stored key"""
    seen = seen if seen is not None else set()
    for x in expr.walk():
        if x.k != "DeclRefExpr" or not x.decl:
            continue
        if x.decl.get("k") == "global" and x.decl.get("repo") and not x.decl.get("constq"):
            return True
        if x.decl.get("k") in ("local", "binding") and x.decl.get("id") not in seen:
            seen.add(x.decl["id"])
            if any(_m1_mentions_kept(e, defs, seen) for e in defs.get(x.decl["id"], ())):
                return True
    return False


def _m1_key_atoms(f, expr, static_id, defs, seen):
    """parameters (and members) a condition mentions, through the locals it is written with; the kept object itself is skipped"""
    out = set()
    if not seen and not _m1_mentions_kept(expr, defs):
        return out
    for x in expr.walk():
        if x.k == "MemberExpr" and x.decl and x.decl.get("k") == "field" and x.c and x.c[0].strip_all().k == "CXXThisExpr":
            out.add(("this", x.decl["n"], "val"))
            continue
        if x.k != "DeclRefExpr" or not x.decl:
            continue
        d = x.decl
        k = d.get("k")
        if k == "parm":
            from .flow import is_container_type
            if is_container_type(d.get("dt", "")):
                p = x.parent
                while p is not None and p.k in ("ImplicitCastExpr", "ParenExpr"):
                    p = p.parent
                size_only = (p is not None and p.k == "MemberExpr" and p.decl and p.decl.get("n") in _M1_SIZE)
                # where the storage lies says nothing about what it holds (x.data() == kept_ptr, &x == kept)
                addr_only = (p is not None and ((p.k == "MemberExpr" and p.decl and p.decl.get("n") in _M1_ADDR)
                                                or (p.k == "UnaryOperator" and p.op == "&")))
                if addr_only:
                    out.add(("parm", d["n"], "address"))
                    continue
                out.add(("parm", d["n"], "size"))
                if not size_only:
                    out.add(("parm", d["n"], "content"))
            else:
                out.add(("parm", d["n"], "val"))
        elif k in ("local", "binding") and d.get("id") != static_id and d.get("id") not in seen:
            seen.add(d["id"])
            for e in defs.get(d["id"], ()):
                out |= _m1_key_atoms(f, e, static_id, defs, seen)
    return out


def _m1_class_rw(prog, g, cls, depth=0, seen=None):
    """(fields read, fields written) by a member function and the members of the same class it calls on this"""
    seen = seen if seen is not None else set()
    if g is None or g.usr in seen or depth > 4:
        return set(), set()
    seen.add(g.usr)
    rd, wr = set(), set()
    for (_, _, k) in g._writes():
        if k[0] == "field":
            wr.add(k[1])
    for n in g.walk():
        fld = _y1_this_field(n) if n.k == "MemberExpr" else None
        if fld:
            rd.add(fld)
        if n.is_call() and n.callee and n.callee.get("cls") == cls and n.callee.get("usr"):
            obj = n.call_object()
            if obj is None or obj.strip_all().k == "CXXThisExpr":
                r2, w2 = _m1_class_rw(prog, prog.functions.get(n.callee["usr"]), cls, depth + 1, seen)
                rd |= r2
                wr |= w2
    return rd, wr


def _m1_has_engine(prog, cls, depth=0):
    cj = prog.classes.get(cls) or {}
    for x in cj.get("fields", []):
        if re.search(r"mt19937|mersenne_twister|linear_congruential|_distribution<|random_device", x["ctype"]):
            return True
        if depth < 2 and x["ctype"] in prog.classes and _m1_has_engine(prog, x["ctype"], depth + 1):
            return True
    return False


def rule_M1(prog, fixture=False):
    res = RuleResult("M1", "a value that a function keeps in static / thread_local storage and computes again only under a condition "
                           "is keyed by everything it was computed from: every argument (scalar, element count or contents of a "
                           "container) the stored value may depend on is mentioned by a condition that decides whether it is "
                           "computed again - otherwise a later call with another argument is answered with the earlier result")
    from .flow import ACCESS_METHODS, OUTPUT_ITERATOR_RESULT, output_arg
    nfun = 0
    for f in sorted(prog.functions.values(), key=lambda g: (g.file, g.line)):
        if not f.blocks or f.entry is None:
            continue
        statics = {}
        for n in f.walk():
            if n.k == "DeclRefExpr" and n.decl and n.decl.get("k") == "global" and n.decl.get("repo") and not n.decl.get("constq"):
                statics.setdefault(n.decl.get("qn", n.decl["n"]), n.decl)
        if not statics or not f.params:
            continue
        flow = None
        defs = {}
        for n in f.walk():
            if n.k == "VarDecl" and n.c and n.decl:
                defs.setdefault(n.decl["id"], []).append(n.c[0])
            elif n.k in ("BinaryOperator", "CompoundAssignOperator") and n.op and n.op.endswith("=") and n.op not in ("==", "!=", "<=", ">=") and len(n.c) == 2:
                l0 = n.c[0].strip_all()
                if l0.k == "DeclRefExpr" and l0.decl and l0.decl.get("k") == "local":
                    defs.setdefault(l0.decl["id"], []).append(n.c[1])
        for qn, d in sorted(statics.items()):
            if re.search(r"mt19937|mersenne_twister|linear_congruential|minstd|ranlux|default_random_engine|_distribution<|std::(mutex|atomic|once_flag)", d.get("dt", "")):
                continue
            if flow is None:
                flow = Flow(f, prog, control=False)
            from .flow import is_container_type
            if not is_container_type(d.get("dt", "")) and "LRUCache<" not in d.get("dt", ""):
                # an object with member functions, kept between calls: what its first use in a call finds is what the previous
                # call left.  Reported when that first use advances a member it also reads and hands the result on.
                uses = []
                for n in f.walk():
                    if n.is_call() and n.callee and n.callee.get("cls") and n.k != "CXXConstructExpr":
                        obj = n.call_object()
                        o = obj.strip_all() if obj is not None else None
                        if o is not None and o.k == "DeclRefExpr" and o.decl and o.decl.get("k") == "global" and o.decl.get("qn", o.decl["n"]) == qn:
                            uses.append(n)
                    elif n.k == "CXXOperatorCallExpr" and n.op == "=" and len(n.c) >= 3:
                        o = n.c[1].strip_all()
                        if o.k == "DeclRefExpr" and o.decl and o.decl.get("k") == "global" and o.decl.get("qn", o.decl["n"]) == qn:
                            uses.append(n)
                muts = [n for n in uses if n.k == "CXXOperatorCallExpr" or not n.callee.get("const")]
                for c in muts:
                    if c.k == "CXXOperatorCallExpr":
                        continue
                    cls_ = c.callee.get("cls")
                    if not c.callee.get("repo") or _m1_has_engine(prog, cls_):
                        continue
                    if any(m is not c and f.precedes(m, c) for m in muts):
                        continue          # something re-establishes (or at least touches) the object first: not judged
                    if c.tc in ("void", None) or (c.parent is not None and c.parent.k == "CompoundStmt"):
                        continue          # the result is not used
                    rd, wr = _m1_class_rw(prog, prog.functions.get(c.callee.get("usr")), cls_)
                    both = sorted(rd & wr)
                    cj = prog.classes.get(cls_) or {}
                    scal = [x["name"] for x in cj.get("fields", []) if x["name"] in both and not is_container_type(x["ctype"])]
                    key2 = "M1:%s:%s:carried-state" % (f.name.replace("(anonymous namespace)::", "").split("(")[0], d["n"])
                    rel = prog.rel(f.file)
                    if scal:
                        nfun += 1
                        res.add(key2, VIOLATED, "%s:%d" % (rel, c.line), "%s in %s" % (d["n"], f.short),
                                "%s is kept between calls and the first thing a call does with it is %s, which reads and advances %s: "
                                "the call continues from where the previous call stopped, so its result depends on the arguments of "
                                "earlier calls" % (d["n"], c.text()[:60], ", ".join(scal)), func=f.name, extra={"props": _m1_props(rel)})
                    break
                if any(c.k != "CXXOperatorCallExpr" for c in muts):
                    continue
            writes = []       # (node, value expressions)
            delegated = []
            for n in f.walk():
                tgt, vals = None, []
                if n.k in ("BinaryOperator", "CompoundAssignOperator") and n.op and n.op.endswith("=") and n.op not in ("==", "!=", "<=", ">=") and len(n.c) == 2:
                    tgt, vals = n.c[0], [n.c[1]]
                elif n.k == "CXXOperatorCallExpr" and n.op and n.op.endswith("=") and n.op not in ("==", "!=", "<=", ">=") and len(n.c) >= 3:
                    tgt, vals = n.c[1], [n.c[2]]
                elif n.is_call() and n.callee:
                    ce = n.callee
                    obj = n.call_object()
                    args = n.call_args()
                    pm = ce.get("pm", [])
                    wq = ce.get("qn", "")
                    if (obj is not None and "cls" in ce and not ce.get("const") and n.k != "CXXConstructExpr"
                            and wq.rsplit("::", 1)[-1] not in ACCESS_METHODS and ("global", qn) in flow.root(obj)):
                        tgt, vals = obj, list(args)
                    else:
                        cands = [a for i, a in enumerate(args) if (pm[i] if i < len(pm) else "val") in ("ref", "ptr")]
                        if wq in OUTPUT_ITERATOR_RESULT and args:
                            cands.append(output_arg(wq, args))
                        elif wq in ("std::fill", "std::iota", "std::generate", "std::reverse", "std::sort", "std::stable_sort", "std::rotate",
                                    "std::partial_sort", "std::nth_element", "std::shuffle") and args:
                            cands.append(args[0])
                        for a in cands:
                            if ("global", qn) in flow.root(a):
                                # the kept object itself handed by reference to a function of the library: what is done with it
                                # - look-up, keyed insertion - happens there and is that function's business
                                a0 = a.strip_all()
                                if ce.get("repo") and a0.k == "DeclRefExpr" and a0.decl and a0.decl.get("k") == "global":
                                    delegated.append(n)
                                    break
                                tgt, vals = a, [b for b in args if b.id != a.id]
                                break
                if tgt is None or ("global", qn) not in flow.root(tgt):
                    continue
                if f.block_of(n) is None:
                    continue
                writes.append((n, vals))
            if not writes:
                continue
            nfun += 1
            rel = prog.rel(f.file)
            key = "M1:%s:%s" % (f.name.replace("(anonymous namespace)::", "").split("(")[0], d["n"])
            if any(o.key == key for o in res.obs):
                key = "M1:%s:%s" % (fkey(f), d["n"])
            where = "%s:%d" % (rel, writes[0][0].line)
            what = "%s in %s" % (d["n"], f.short)
            extra = {"props": _m1_props(rel)}
            # writes that lie on every path to the normal exit happen in every call: what they store is not kept.  The
            # obligation is about the writes that happen only under a condition.
            tb = tuple(f.throw_blocks())

            def anchor_block(w):
                # a write inside a loop refills the object whenever the loop is reached: the loop's header stands for it
                top = None
                for a in w.ancestors():
                    if a.k in ("ForStmt", "WhileStmt", "DoStmt", "CXXForRangeStmt"):
                        top = a
                if top is not None:
                    c = top.role("cond")
                    loc = f.block_of(c) if c is not None else None
                    if loc is not None:
                        return loc[0]
                return f.block_of(w)[0]
            every = [(w, v) for (w, v) in writes if f.exit not in f.reachable(f.entry, removed_blocks=(anchor_block(w),) + tb)]
            allw = writes
            writes = [(w, v) for (w, v) in writes if not any(w is e[0] for e in every)]
            if not writes:
                res.add(key, DISCHARGED, where, what, "rewritten by every call (line %d): nothing is kept between calls" % allw[0][0].line,
                        func=f.name, extra=extra)
                continue
            where = "%s:%d" % (rel, writes[0][0].line)
            dep = set()
            for (w, vals) in writes:
                for v in vals:
                    ap = _m1_address_of_param(v)
                    if ap is not None:
                        dep.add(("parm", ap, "address"))
                        continue
                    dep |= {a for a in flow.deps(v) if a[0] in ("parm", "this") and a[1] != "*"}
            keyat = set()
            conds = []
            for (w, _) in writes:
                bid = f.block_of(w)[0]
                def _skips(starts):
                    # the other outcome reaches the normal exit without passing the write: the condition decides whether the
                    # value is computed again (a loop that merely precedes the write does not)
                    for st in starts:
                        if st is not None and st != bid and f.exit in f.reachable(st, removed_blocks=(bid,)):
                            return True
                    return False
                for (b, si, s, cn, pol) in f.branch_edges():
                    if s is None:
                        continue
                    if bid not in f.reachable(f.entry, removed_edges=[(b.id, si)]) and _skips([b.succs[1 - si]]):
                        conds.append(cn)
                        keyat |= _m1_key_atoms(f, cn, d.get("id"), defs, set())
                for (edges, cn, pol, others, stmt) in f.compound_groups():
                    if bid not in f.reachable(f.entry, removed_edges=list(edges)) and not any(c.id == cn.id for c in conds) \
                            and _skips(list(others)):
                        conds.append(cn)
                        keyat |= _m1_key_atoms(f, cn, d.get("id"), defs, set())
            # a conditional expression / short-circuit operand the write sits in
            missing = []
            for a in sorted(dep):
                if a[0] == "parm":
                    if a[2] == "val" and not any(k[0] == "parm" and k[1] == a[1] for k in keyat):
                        missing.append("the argument %s" % a[1])
                    elif a[2] == "size" and not any(k[0] == "parm" and k[1] == a[1] and k[2] != "address" for k in keyat):
                        missing.append("the length of %s" % a[1])
                    elif a[2] == "content" and ("parm", a[1], "content") not in keyat:
                        missing.append("the contents of %s" % a[1])
                    elif a[2] == "address" and not any(k[0] == "parm" and k[1] == a[1] and k[2] in ("address", "content") for k in keyat):
                        missing.append("the address of %s" % a[1])
                elif a[0] == "this" and not any(k[0] == "this" and k[1] == a[1] for k in keyat):
                    missing.append("the member %s" % a[1])
            # "the length of x" is implied when the contents are missing as well
            names = {m.split()[-1] for m in missing if m.startswith("the contents")}
            missing = [m for m in missing if not (m.startswith("the length of") and m.split()[-1] in names)]
            if not conds:
                res.add(key, UNMODELLED, where, what, "the write of the kept object is neither on every path nor under a recognised condition",
                        func=f.name, extra=extra)
            elif missing:
                res.add(key, VIOLATED, where, what,
                        "%s is computed from %s (line %d) but computed again only under %s, which %s: a later call that differs only there "
                        "is answered with the value kept from the earlier call"
                        % (d["n"], ", ".join(missing), writes[0][0].line, " / ".join(sorted({c.text()[:60] for c in conds}))[:200],
                           "does not mention it" if len(missing) == 1 else "mentions none of them"), func=f.name, extra=extra)
            else:
                res.add(key, DISCHARGED, where, what, "every argument the kept value depends on (%s) is mentioned by the condition that "
                        "refreshes it" % (", ".join(sorted({a[1] for a in dep})) or "none"), func=f.name, extra=extra)
    nfun += _m1_partial_refill(prog, res)
    nfun += _m1_escape(prog, res)
    res.stats["keeping_functions"] = nfun
    return res


def _m1_escape(prog, res):
    """a reference to a kept object that its function rewrites in place must not outlive the call: a class member bound to it
    refers to whatever the latest call - of any object, with any argument - has put there"""
    rewriting = {}
    for g in prog.functions.values():
        if not (g.get("ret") or "").rstrip().endswith("&"):
            continue
        rets = [n for n in g.walk() if n.k == "ReturnStmt" and n.c]
        ds = []
        for r in rets:
            e = r.c[0].strip_all()
            while e.k == "MemberExpr" and e.c:
                e = e.c[0].strip_all()
            if e.k == "DeclRefExpr" and e.decl and e.decl.get("k") == "global" and e.decl.get("sl") and not e.decl.get("constq"):
                ds.append(e.decl)
        if not rets or len(ds) != len(rets) or len({d_["n"] for d_ in ds}) != 1:
            continue
        d = ds[0]
        wr = False
        for n in g.walk():
            tgt = None
            if n.k in ("BinaryOperator", "CompoundAssignOperator") and n.op and n.op.endswith("=") and n.op not in ("==", "!=", "<=", ">=") and len(n.c) == 2:
                tgt = n.c[0]
            elif n.k == "CXXOperatorCallExpr" and n.op == "=" and len(n.c) >= 3:
                tgt = n.c[1]
            elif n.k == "CXXMemberCallExpr" and n.callee and not n.callee.get("const"):
                nm = (n.callee.get("qn") or "").rsplit("::", 1)[-1]
                if nm in ("resize", "assign", "clear", "push_back", "emplace_back", "swap", "insert", "erase"):
                    tgt = n.call_object()
            if tgt is not None:
                t0 = tgt.strip_all()
                while t0.k == "MemberExpr" and t0.c:
                    t0 = t0.c[0].strip_all()
                if t0.k == "DeclRefExpr" and t0.decl and t0.decl.get("k") == "global" and t0.decl.get("n") == d["n"]:
                    wr = True
        if wr:
            rewriting[g.usr] = (g, d)
    # functions that hand out a reference / pointer into a thread_local object: what they return belongs to the calling thread
    for g in prog.functions.values():
        rt = (g.get("ret") or "").rstrip()
        if g.usr in rewriting or not (rt.endswith("&") or rt.endswith("*")) or not g.blocks:
            continue
        rets = [n for n in g.walk() if n.k == "ReturnStmt" and n.c and not any(a.k == "LambdaExpr" for a in n.ancestors())]
        if not rets:
            continue
        tl = {}
        for n in g.walk():
            if n.k == "DeclRefExpr" and n.decl and n.decl.get("k") == "global" and n.decl.get("tls") and n.decl.get("repo") and not n.decl.get("constq"):
                tl[n.decl.get("qn", n.decl["n"])] = n.decl
        if not tl:
            continue
        fl = Flow(g, prog, control=False)
        hit = None
        for r in rets:
            roots = fl.root(r.c[0])
            names = [q for (k_, q) in roots if k_ == "global" and q in tl]
            if not names:
                hit = None
                break
            hit = tl[names[0]]
        if hit is not None and not re.search(r"mt19937|mersenne_twister|_distribution<", hit.get("dt", "")):
            rewriting[g.usr] = (g, hit)
    n_inst = 0
    if not rewriting:
        return 0
    for f in sorted(prog.functions.values(), key=lambda h: (h.file, h.line, h.name)):
        if not f.cls:
            continue
        cj = prog.classes.get(f.cls) or {}
        indirect = {x["name"]: x for x in cj.get("fields", []) if x.get("ref") or x.get("ptr")}
        if not indirect:
            continue
        sites = []
        for ci in f.ctor_inits():
            if ci.get("member") in indirect:
                for x in ci.walk():
                    if x.is_call() and x.callee and x.callee.get("usr") in rewriting:
                        sites.append((ci.get("member"), x))
        for n in f.walk():
            if n.k == "BinaryOperator" and n.op == "=" and len(n.c) == 2:
                fld = _y1_this_field(n.c[0])
                if fld in indirect and indirect[fld].get("ptr"):
                    for x in n.c[1].walk():
                        if x.is_call() and x.callee and x.callee.get("usr") in rewriting:
                            sites.append((fld, x))
        for (fld, x) in sites:
            g, d = rewriting[x.callee["usr"]]
            n_inst += 1
            rel = prog.rel(f.file)
            res.add("M1:%s:%s:escape" % (f.cls, fld), VIOLATED, "%s:%d" % (rel, x.line), "%s::%s" % (f.cls.rsplit("::", 1)[-1], fld),
                    "the member %s (%s) is bound to what %s returns, a reference into its %s object %s: that storage is rewritten by "
                    "later calls with another argument%s - the object reads another call's data, or memory that is gone"
                    % (fld, indirect[fld]["type"], g.short, "thread_local" if d.get("tls") else "static", d["n"],
                       " and, being thread_local, ends with the thread that constructed this object while the object can be handed on" if d.get("tls") else ""),
                    func=f.name, extra={"props": list(dict.fromkeys(_m1_props(rel) + _m1_props(prog.rel(g.file)) + ["C05"] + (["C09"] if d.get("tls") else [])))})
    return n_inst


def _m1_partial_refill(prog, res):
    """a kept container that is read as a whole is rewritten as a whole: element loops that stop short of its length leave the
    rest to whatever the previous call put there"""
    from .flow import is_container_type
    from .rules_bounds import _loop_shape
    # accessors: T& f() { thread_local T v; return v; }
    acc = {}
    for g in prog.functions.values():
        if not (g.get("ret") or "").rstrip().endswith("&") or g.params:
            continue
        rets = [n for n in g.walk() if n.k == "ReturnStmt" and n.c]
        ds = []
        for r in rets:
            e = r.c[0].strip_all()
            if e.k == "DeclRefExpr" and e.decl and e.decl.get("k") == "global" and e.decl.get("sl") and not e.decl.get("constq"):
                ds.append(e.decl)
        if rets and len(ds) == len(rets) and len({d_["n"] for d_ in ds}) == 1:
            acc[g.usr] = ds[0]
    n_inst = 0
    for f in sorted(prog.functions.values(), key=lambda g: (g.file, g.line)):
        if not f.blocks or f.entry is None:
            continue
        kept = {}        # ('g', qn) or ('l', local id) -> static decl
        for n in f.walk():
            if n.k == "DeclRefExpr" and n.decl and n.decl.get("k") == "global" and n.decl.get("sl") and n.decl.get("repo") \
                    and not n.decl.get("constq") and is_container_type(n.decl.get("dt", "")):
                kept[("g", n.decl.get("qn", n.decl["n"]))] = n.decl
            elif n.k == "VarDecl" and n.c and n.decl and (n.type or "").rstrip().endswith("&") and is_container_type(n.type or ""):
                for x in n.c[0].walk():
                    if x.is_call() and x.callee and x.callee.get("usr") in acc:
                        kept[("l", n.decl["id"])] = acc[x.callee["usr"]]
        if not kept:
            continue
        defs = {}
        for n in f.walk():
            if n.k == "VarDecl" and n.c and n.decl:
                defs.setdefault(n.decl["id"], []).append(n.c[0])

        def which(node):
            e = node.strip_all()
            if e.k != "DeclRefExpr" or not e.decl:
                return None
            if e.decl.get("k") == "global" and ("g", e.decl.get("qn", e.decl["n"])) in kept:
                return ("g", e.decl.get("qn", e.decl["n"]))
            if e.decl.get("k") == "local" and ("l", e.decl["id"]) in kept:
                return ("l", e.decl["id"])
            return None

        def resolve(e, depth=0):
            e = e.strip_all()
            while depth < 4 and e.k == "DeclRefExpr" and e.decl and e.decl.get("k") == "local" and len(defs.get(e.decl["id"], ())) == 1 \
                    and "const" in (e.decl.get("dt") or ""):
                e = defs[e.decl["id"]][0].strip_all()
                depth += 1
            return e

        def names(e):
            out = set()
            for x in resolve(e).walk():
                if x.k == "DeclRefExpr" and x.decl and x.decl.get("k") in ("parm", "local", "global"):
                    r = resolve(x)
                    if r is not x.strip_all():
                        out |= names(r)
                    else:
                        out.add(x.decl["n"])
                elif x.k == "MemberExpr" and x.decl and x.decl.get("k") == "field":
                    out.add(x.decl["n"])
            return out

        for kk, d in sorted(kept.items(), key=lambda kv: str(kv[0])):
            loops, sizes, whole_reads, whole_every = [], [], [], False
            tb = tuple(f.throw_blocks())
            for n in f.walk():
                # element writes inside counted loops
                tgt = None
                if n.k in ("BinaryOperator", "CompoundAssignOperator") and n.op == "=" and len(n.c) == 2:
                    tgt, val = n.c[0], n.c[1]
                elif n.k == "CXXOperatorCallExpr" and n.op == "=" and len(n.c) >= 3:
                    tgt, val = n.c[1], n.c[2]
                if tgt is not None:
                    t0 = tgt.strip_all()
                    if which(t0) == kk:
                        # whole assignment: K = T(e) / zeros(e)
                        v0 = val.strip_all()
                        while v0.k in ("CXXConstructExpr", "CXXFunctionalCastExpr", "CXXTemporaryObjectExpr", "CXXBindTemporaryExpr",
                                       "MaterializeTemporaryExpr") and len(v0.c) == 1 and v0.c[0].strip_all().k in (
                                       "CXXConstructExpr", "CXXTemporaryObjectExpr", "CallExpr", "CXXFunctionalCastExpr"):
                            v0 = v0.c[0].strip_all()
                        args = v0.call_args() if v0.is_call() else list(v0.c)
                        if args and args[0].tc in ("int",):
                            sizes.append(args[0])
                        loc = f.block_of(n)
                        if loc is not None and f.exit not in f.reachable(f.entry, removed_blocks=(loc[0],) + tb):
                            whole_every = True
                    elif t0.k in ("CXXOperatorCallExpr", "ArraySubscriptExpr") and (t0.op == "[]" or t0.k == "ArraySubscriptExpr"):
                        base = t0.c[1] if t0.k == "CXXOperatorCallExpr" else t0.c[0]
                        idx = t0.c[2] if t0.k == "CXXOperatorCallExpr" and len(t0.c) > 2 else (t0.c[1] if len(t0.c) > 1 else None)
                        if which(base) == kk and idx is not None:
                            lp = None
                            for a in n.ancestors():
                                if a.k == "ForStmt":
                                    lp = a
                                    break
                            sh = _loop_shape(lp) if lp is not None else None
                            i0 = idx.strip_all()
                            if sh and i0.k == "DeclRefExpr" and i0.decl and i0.decl.get("id") == sh[0] and sh[3] == "<":
                                loops.append((sh[2], sh[4], lp))
                            else:
                                loops.append((None, None, lp))
                elif n.is_call() and n.callee:
                    obj = n.call_object()
                    nm = (n.callee.get("qn") or "").rsplit("::", 1)[-1]
                    if obj is not None and which(obj) == kk and nm in ("resize", "assign") and n.call_args():
                        sizes.append(n.call_args()[0])
                    if nm in ("fill", "fill_n") and n.call_args() and any(which(x) == kk for a in n.call_args() for x in a.walk()):
                        whole_every = True
                    if obj is not None and which(obj) == kk and nm in ("clear", "assign"):
                        loc = f.block_of(n)
                        if loc is not None and f.exit not in f.reachable(f.entry, removed_blocks=(loc[0],) + tb):
                            whole_every = True
                if n.k == "DeclRefExpr" and which(n) == kk:
                    p = n.parent
                    while p is not None and p.k in ("ImplicitCastExpr", "ParenExpr", "MaterializeTemporaryExpr", "CXXBindTemporaryExpr"):
                        p = p.parent
                    if p is None:
                        continue
                    if p.k == "MemberExpr":
                        continue          # K.size(), K.data(), K.begin() ...: not the object as a whole
                    if p.k == "CXXOperatorCallExpr" and p.op in ("[]", "=") and len(p.c) > 1 and p.c[1].strip_all() is n:
                        continue
                    if p.k == "ArraySubscriptExpr":
                        continue
                    if p.k == "VarDecl" and (p.type or "").rstrip().endswith("&"):
                        continue          # another name for it
                    whole_reads.append(n)
            if not loops or not whole_reads or not sizes:
                continue
            n_inst += 1
            rel = prog.rel(f.file)
            key = "M1:%s:%s:partial-refill" % (f.name.replace("(anonymous namespace)::", "").split("(")[0], d["n"])
            what = "%s in %s" % (d["n"], f.short)
            extra = {"props": _m1_props(rel)}
            where = "%s:%d" % (rel, whole_reads[0].line)
            if whole_every:
                res.add(key, DISCHARGED, where, what, "rewritten as a whole by every call", func=f.name, extra=extra)
                continue
            if any(a is None for (a, b, c) in loops):
                res.add(key, UNMODELLED, where, what, "element writes outside counted loops", func=f.name, extra=extra)
                continue
            # chain the loop intervals from 0
            cur, used = "0", set()
            last = None
            progress = True
            while progress:
                progress = False
                for i, (a, b, lp) in enumerate(loops):
                    if i in used:
                        continue
                    at = resolve(a).text()
                    if at == cur or a.text() == cur:
                        cur = resolve(b).text()
                        last = b
                        used.add(i)
                        progress = True
                        for j, (a2, b2, _) in enumerate(loops):
                            if j not in used and (b2.text() == b.text()) and (a2.text() == a.text()):
                                used.add(j)
            size_texts = {resolve(z).text() for z in sizes} | {z.text() for z in sizes}
            selfsize = {"%s.size()" % nm for nm in [d["n"]] + [x.decl["n"] for x in f.walk() if x.k == "VarDecl" and x.decl and ("l", x.decl["id"]) == kk]}
            if last is None:
                res.add(key, UNMODELLED, where, what, "no element loop starts at 0", func=f.name, extra=extra)
            elif cur in size_texts or cur in selfsize or last.text() in size_texts:
                res.add(key, DISCHARGED, where, what, "the element loops cover [0, %s), the length the object is given" % cur, func=f.name, extra=extra)
            else:
                na, nb = names(last), set()
                for z in sizes:
                    nb |= names(z)
                if na and nb and not (na & nb):
                    res.add(key, VIOLATED, "%s:%d" % (rel, last.line), what,
                            "%s is kept between calls with %s elements and read as a whole (line %d), but each call rewrites only [0, %s): the "
                            "elements from there on are written when the object is re-created and otherwise keep what an earlier call "
                            "left (a zero padding that is no longer zero)" % (d["n"], " / ".join(sorted(size_texts))[:60], whole_reads[0].line,
                                                                               last.text()), func=f.name, extra=extra)
                else:
                    res.add(key, UNMODELLED, where, what, "cannot relate the refilled range [0, %s) to the length %s" % (cur, sorted(size_texts)),
                            func=f.name, extra=extra)
    return n_inst


# ------------------------------------------------------------------------------------------------
# Y1: an assignment operator stores nothing computed from the destination's previous members
def _y1_this_field(n):
    n = n.strip_all()
    if n.k == "MemberExpr" and n.decl and n.decl.get("k") == "field" and (not n.c or n.c[0].strip_all().k == "CXXThisExpr"):
        return n.decl["n"]
    return None


def rule_Y1(prog, fixture=False):
    res = RuleResult("Y1", "a user-provided copy / move assignment stores only what comes from its source: no value written into a "
                           "member is computed from a member of the destination that has not yet been taken over from the source "
                           "on every path (a clone made with the destination's old type tag, a length left from the old object)")
    from .flow import ACCESS_METHODS
    nops = 0
    seen = set()
    for f in sorted(prog.functions.values(), key=lambda g: (g.file, g.line, g.name)):
        if not f.cls or f.get("implicit") or f.get("defaulted") or f.name.rsplit("::", 1)[-1] != "operator=" or len(f.params) != 1:
            continue
        cl = f.cls.rsplit("::", 1)[-1].split("<")[0]
        pt = f.params[0].get("t", "")
        if not re.search(r"\b%s\b" % re.escape(cl), pt) or "initializer_list" in pt:
            continue
        # same class (slice_t = const_slice_t is an element copy, not an assignment of the object)
        pcl = re.sub(r"^(const )?(dsplib::)?", "", pt).split("<")[0].strip(" &")
        if pcl != cl:
            continue
        if not f.blocks:
            continue
        if (f.file, f.line) in seen and not fixture:
            pass
        nops += 1
        rel = prog.rel(f.file)
        key = "Y1:%s" % fkey(f)
        where = "%s:%d" % (rel, f.line)
        extra = {"props": ["C05"] + (["C08"] if "resample" in rel else [])}
        defs = {}
        fwrites = []      # (node, field, value expressions)
        targets = set()   # ids of the nodes that are written, not read
        for n in f.walk():
            if n.k == "VarDecl" and n.c and n.decl:
                defs.setdefault(n.decl["id"], []).append(n.c[0])
            tgt, vals = None, []
            if n.k in ("BinaryOperator", "CompoundAssignOperator") and n.op and n.op.endswith("=") and n.op not in ("==", "!=", "<=", ">=") and len(n.c) == 2:
                tgt, vals = n.c[0], [n.c[1]] + ([n.c[0]] if n.op != "=" else [])
                l0 = n.c[0].strip_all()
                if l0.k == "DeclRefExpr" and l0.decl and l0.decl.get("k") == "local":
                    defs.setdefault(l0.decl["id"], []).append(n.c[1])
            elif n.k == "CXXOperatorCallExpr" and n.op and n.op.endswith("=") and n.op not in ("==", "!=", "<=", ">=") and len(n.c) >= 3:
                tgt, vals = n.c[1], [n.c[2]] + ([n.c[1]] if n.op != "=" else [])
            elif n.is_call() and n.callee:
                ce = n.callee
                obj = n.call_object()
                args = n.call_args()
                pm = ce.get("pm", [])
                nm = (ce.get("qn") or "").rsplit("::", 1)[-1]
                if obj is not None and "cls" in ce and not ce.get("const") and n.k != "CXXConstructExpr" and nm not in ACCESS_METHODS \
                        and _y1_this_field(obj):
                    tgt, vals = obj, list(args)
                else:
                    refs = [a for i, a in enumerate(args) if (pm[i] if i < len(pm) else "val") in ("ref", "ptr") and _y1_this_field(a)]
                    if refs:
                        for a in refs:
                            targets.add(a.strip_all().id)
                        tgt, vals = refs[0], [b for b in args if not any(b.id == r.id for r in refs)]
            if tgt is None:
                continue
            fld = _y1_this_field(tgt)
            if fld is None:
                continue
            if n.op == "=" or n.k not in ("BinaryOperator", "CompoundAssignOperator", "CXXOperatorCallExpr"):
                targets.add(tgt.strip_all().id)
            fwrites.append((n, fld, vals))
        if not fwrites:
            res.add(key, DISCHARGED, where, f.short, "writes no member as a whole (element-wise copy through the object's storage)",
                    func=f.name, extra=extra)
            continue

        def stale(r, fld):
            for (w, g, _) in fwrites:
                if g == fld and w is not None and f.precedes(w, r) and not any(x.id == r.id for x in w.walk()):
                    return False
            return True

        def closure(exprs, seen_ids):
            for e in exprs:
                for x in e.walk():
                    yield x
                    if x.k == "DeclRefExpr" and x.decl and x.decl.get("k") in ("local", "binding") and x.decl.get("id") not in seen_ids:
                        seen_ids.add(x.decl["id"])
                        yield from closure(defs.get(x.decl["id"], ()), seen_ids)

        bad = None
        for (w, g, vals) in fwrites:
            for x in closure(vals, set()):
                fld = _y1_this_field(x) if x.k == "MemberExpr" else None
                if fld is None or x.id in targets:
                    continue
                # asking the old object for its element count / emptiness says nothing about what is stored
                p = x.parent
                while p is not None and p.k in ("ImplicitCastExpr", "ParenExpr"):
                    p = p.parent
                if p is not None and p.k == "MemberExpr" and p.decl and p.decl.get("n") in ("size", "empty", "capacity", "length"):
                    continue
                if stale(x, fld):
                    bad = (w, g, x, fld)
                    break
            if bad:
                break
        if bad:
            (w, g, x, fld) = bad
            res.add(key, VIOLATED, "%s:%d" % (rel, x.line), f.short,
                    "the value stored into %s (line %d: %s) is computed from the destination's own %s (line %d), which no path has "
                    "replaced by the source's yet: the assigned object is built from the old object's %s and the new object's data"
                    % (g, w.line, w.text()[:80], fld, x.line, fld), func=f.name, extra=extra)
        else:
            res.add(key, DISCHARGED, where, f.short, "every value stored into a member (%s) comes from the source or from members already "
                    "taken over from it" % ", ".join(sorted({g for (_, g, _) in fwrites})), func=f.name, extra=extra)
    if not nops and not fixture:
        res.broken.append("anchor vanished: no user-provided copy / move assignment in the library")
    res.stats["assignment_operators"] = nops
    return res


# ------------------------------------------------------------------------------------------------
# M2: a lazily derived member follows the members it is derived from
def _m2_props(rel):
    if rel.endswith(("lms.h", "rls.h")):
        return ["C12"]
    if "/audio/" in rel or "agc" in rel:
        return ["C20"]
    if "resample" in rel:
        return ["C08"]
    if rel.endswith(("hilbert.h", "hilbert.cpp", "tuner.h", "delay.h")):
        return ["C14", "C06"]
    if "/fft/" in rel or rel.endswith(("fft.h", "ifft.h", "czt.h", "stft.cpp")):
        return ["C10"]
    return ["C06"]


def _m2_bool_lit(e):
    e = e.strip_all()
    if e.k == "CXXBoolLiteralExpr":
        return bool(e.get("v") in (True, "true", "1", 1))
    if e.k == "IntegerLiteral" and str(e.get("v")) in ("0", "1"):
        return str(e.get("v")) == "1"
    return None


def _m2_assignments(f, field):
    """[(node, rhs)] plain assignments this->field = rhs; (node, None) for compound / other writes"""
    out = []
    for n in f.walk():
        if n.k in ("BinaryOperator", "CompoundAssignOperator") and n.op and n.op.endswith("=") and n.op not in ("==", "!=", "<=", ">=") and len(n.c) == 2:
            if _y1_this_field(n.c[0]) == field:
                out.append((n, n.c[1] if n.op == "=" else None, n.op))
    return out


def _m2_source_writes(prog, m, srcs):
    """[(block, index, member)] every write - whole, element-wise, through a mutating call or an output argument - of one of the members"""
    from .flow import ACCESS_METHODS, OUTPUT_ITERATOR_RESULT, output_arg
    flow = Flow(m, prog, control=False)
    out = []
    for n in m.walk():
        tgts = []
        if n.k in ("BinaryOperator", "CompoundAssignOperator") and n.op and n.op.endswith("=") and n.op not in ("==", "!=", "<=", ">=") and len(n.c) == 2:
            tgts = [n.c[0]]
        elif n.k == "UnaryOperator" and n.op in ("++", "--") and n.c:
            tgts = [n.c[0]]
        elif n.k == "CXXOperatorCallExpr" and n.op and (n.op.endswith("=") and n.op not in ("==", "!=", "<=", ">=") or n.op in ("++", "--")) and len(n.c) > 1:
            tgts = [n.c[1]]
        elif n.is_call() and n.callee:
            ce = n.callee
            obj = n.call_object()
            args = n.call_args()
            pm = ce.get("pm", [])
            wq = ce.get("qn", "")
            if obj is not None and "cls" in ce and not ce.get("const") and n.k != "CXXConstructExpr" and wq.rsplit("::", 1)[-1] not in ACCESS_METHODS:
                tgts.append(obj)
            for i, a in enumerate(args):
                if (pm[i] if i < len(pm) else "val") in ("ref", "ptr") and not (a.type or "").startswith("const "):
                    tgts.append(a)
            if wq in OUTPUT_ITERATOR_RESULT and args:
                tgts.append(output_arg(wq, args))
        for t in tgts:
            for r in flow.root(t):
                if r[0] == "this" and r[1] in srcs:
                    loc = m.block_of(n)
                    if loc is not None:
                        out.append((n, loc[0], loc[1], r[1]))
    return out


def rule_M2(prog, fixture=False):
    res = RuleResult("M2", "a member that is derived lazily from other members under a dirty / valid flag follows them: every member "
                           "function that writes a source member marks the derived one on every path to its exit (or recomputes "
                           "it), and the mark is cleared only where the derived member has just been recomputed")
    by_cls = {}
    for f in prog.functions.values():
        if f.cls and not f.get("implicit") and f.blocks:
            by_cls.setdefault(f.cls, []).append(f)
    nlazy = 0
    for cls, fs in sorted(by_cls.items()):
        cj = prog.classes.get(cls) or {}
        bools = {x["name"] for x in cj.get("fields", []) if re.match(r"^(mutable )?(const )?bool$", x["ctype"].strip())}
        if not bools:
            continue
        fs = sorted(fs, key=lambda g: (g.file, g.line, g.name))
        lazies = {}       # (C, FLAG) -> (getter, dirty polarity, sources)
        for g in fs:
            for n in g.walk():
                if n.k != "IfStmt":
                    continue
                cond = n.role("cond")
                then = n.role("then")
                if cond is None or then is None:
                    continue
                c0 = cond.strip_all()
                pol = True
                while c0.k == "UnaryOperator" and c0.op == "!" and c0.c:
                    pol = not pol
                    c0 = c0.c[0].strip_all()
                flag = _y1_this_field(c0)
                if flag not in bools:
                    continue
                # inside the branch: FLAG = literal(not pol) and a whole write of another member
                clears = [x for x in then.walk() if x.k == "BinaryOperator" and x.op == "=" and len(x.c) == 2 and _y1_this_field(x.c[0]) == flag
                          and _m2_bool_lit(x.c[1]) == (not pol)]
                if not clears:
                    continue
                flow = Flow(g, prog, control=False, fields_env=False)
                for x in then.walk():
                    tgt, val = None, None
                    if x.k == "BinaryOperator" and x.op == "=" and len(x.c) == 2:
                        tgt, val = x.c[0], x.c[1]
                    elif x.k == "CXXOperatorCallExpr" and x.op == "=" and len(x.c) >= 3:
                        tgt, val = x.c[1], x.c[2]
                    if tgt is None:
                        continue
                    cm = _y1_this_field(tgt)
                    if cm is None or cm == flag:
                        continue
                    srcs = {a[1] for a in flow.deps(val) if a[0] == "this" and a[1] not in ("*", cm, flag)}
                    if srcs:
                        key = (cm, flag)
                        if key in lazies:
                            lazies[key][2].update(srcs)
                        else:
                            lazies[key] = [g, pol, set(srcs)]
        muts = {x["name"] for x in cj.get("fields", []) if x.get("mutable")}
        for (cm, flag), (getter, pol, srcs) in sorted(lazies.items()):
            # a first-call initialisation (if (!_started) { _state = ...; _started = true; }) is not a derived value: the flag is
            # never turned back.  Lazy = computed in a const member / into a mutable member, or marked again somewhere.
            remarked = False
            for m in fs:
                if m.name.rsplit("::", 1)[-1] == cls.rsplit("::", 1)[-1].split("<")[0]:
                    continue
                for (a, rhs, op) in _m2_assignments(m, flag):
                    if not (rhs is not None and _m2_bool_lit(rhs) == (not pol)):
                        remarked = True
            if not (getter.get("const") or cm in muts or remarked):
                continue
            nlazy += 1
            rel = prog.rel(getter.file)
            extra = {"props": _m2_props(rel)}
            base = "M2:%s:%s" % (cls, cm)
            what = "%s::%s (flag %s, derived from %s)" % (cls.rsplit("::", 1)[-1], cm, flag, ", ".join(sorted(srcs)))
            bad_mark, bad_clear = None, None
            for m in fs:
                nm = m.name.rsplit("::", 1)[-1]
                is_ctor = nm == cls.rsplit("::", 1)[-1].split("<")[0]
                assigns = _m2_assignments(m, flag)
                recompute = [n for n in m.walk() if ((n.k == "BinaryOperator" and n.op == "=" and len(n.c) == 2 and _y1_this_field(n.c[0]) == cm)
                                                      or (n.k == "CXXOperatorCallExpr" and n.op == "=" and len(n.c) >= 3 and _y1_this_field(n.c[1]) == cm))]
                # (b) clears
                for (a, rhs, op) in assigns:
                    lit = _m2_bool_lit(rhs) if rhs is not None else None
                    if lit == pol:
                        continue          # marks
                    keep = False
                    if rhs is None:
                        keep = (op == "|=" and pol) or (op == "&=" and not pol)
                    else:
                        r0 = rhs.strip_all()
                        if r0.k == "BinaryOperator" and r0.op == ("||" if pol else "&&") and any(_y1_this_field(c) == flag for c in r0.c):
                            keep = True
                    if keep:
                        continue
                    if any(m.precedes(r, a) for r in recompute):
                        continue
                    if bad_clear is None:
                        bad_clear = (m, a)
                if is_ctor:
                    continue
                # (a) writes of a source member are followed by a mark (or a recomputation) on every path to the exit
                marks = [a for (a, rhs, op) in assigns if (rhs is not None and _m2_bool_lit(rhs) == pol)
                         or (rhs is None and ((op == "|=" and pol) or (op == "&=" and not pol)))
                         or (rhs is not None and rhs.strip_all().k == "BinaryOperator" and rhs.strip_all().op == ("||" if pol else "&&")
                             and any(_y1_this_field(c) == flag for c in rhs.strip_all().c))] + recompute
                # an assignment of something else than the literal is judged by the clear obligation; here it counts as a mark
                marks = marks + [a for (a, rhs, op) in assigns if not any(a is x for x in marks)]
                mark_locs = [m.block_of(a) for a in marks if m.block_of(a) is not None]
                tb = tuple(m.throw_blocks())

                def fact_set(node):
                    return {(fa.cond.text(), fa.pol) for fa in m.facts_at(node)}
                for (wn, wb, wi, src_) in _m2_source_writes(prog, m, srcs):
                    if any(b == wb and i > wi for (b, i) in mark_locs):
                        continue
                    removed = tuple({b for (b, i) in mark_locs if b != wb}) + tb
                    reach = set()
                    for s_ in m.blocks[wb].succs:
                        if s_ is not None and s_ not in removed:
                            reach |= m.reachable(s_, removed_blocks=removed)
                    if not (m.exit in reach or wb == m.exit):
                        continue
                    # a mark under the very conditions the write is under (if (adapt) update; ... if (adapt) stale = true;)
                    wf = fact_set(wn)
                    later = m.reachable_from_succs(wb)
                    if any(m.block_of(a) is not None and m.block_of(a)[0] in later and fact_set(a) <= wf for a in marks):
                        continue
                    if bad_mark is None:
                        bad_mark = (m, wn, src_)
            if bad_clear:
                (m, a) = bad_clear
                res.add(base + ":clear", VIOLATED, "%s:%d" % (prog.rel(m.file), a.line), what,
                        "%s (in %s) can take the mark off %s although %s has not been recomputed on the way: what an earlier call marked "
                        "is forgotten and %s hands out the old value" % (a.text()[:70], m.short, cm, cm, getter.short), func=m.name, extra=extra)
            else:
                res.add(base + ":clear", DISCHARGED, "%s:%d" % (rel, getter.line), what,
                        "the flag is cleared only behind a recomputation of %s" % cm, func=getter.name, extra=extra)
            if bad_mark:
                (m, wn, src) = bad_mark
                line = wn.line
                res.add(base + ":mark", VIOLATED, "%s:%d" % (prog.rel(m.file), line), what,
                        "%s writes %s, from which %s is derived, and a path from there to its exit neither marks %s (%s) nor recomputes it: "
                        "%s keeps handing out the value derived from the old %s" % (m.short, src, cm, cm, flag, getter.short, src),
                        func=m.name, extra=extra)
            else:
                res.add(base + ":mark", DISCHARGED, "%s:%d" % (rel, getter.line), what,
                        "every write of %s is followed by a mark or a recomputation on every path" % ", ".join(sorted(srcs)),
                        func=getter.name, extra=extra)
    res.stats["lazy_members"] = nlazy
    return res
