"""Shared machinery of the guard rules (G1 G2 G3 G5 A1b Z1): live facts, relating guards, foreign accesses."""
from .flow import Flow, is_container_type
from .ir import atoms_of

CMP_OPS = {"==", "!=", "<", "<=", ">", ">="}
NEG = {"==": "!=", "!=": "==", "<": ">=", ">=": "<", ">": "<=", "<=": ">"}
FLIP = {"==": "==", "!=": "!=", "<": ">", ">": "<", "<=": ">=", ">=": "<="}


def as_comparison(n):
    """(lhs, op, rhs) for builtin or overloaded comparisons, else None"""
    n = n.strip()
    if n.k == "BinaryOperator" and n.op in CMP_OPS and len(n.c) == 2:
        return n.c[0], n.op, n.c[1]
    if n.k == "CXXOperatorCallExpr" and n.op in CMP_OPS and len(n.c) == 3:
        return n.c[1], n.op, n.c[2]
    return None


def obj_of_atom(a, group_params=False):
    if a[0] == "parm":
        return ("INPUT",) if group_params else ("parm", a[1])
    if a[0] == "this":
        return ("this",)
    if a[0] == "global":
        return ("global", a[1])
    return None


class GuardCtx:
    def __init__(self, prog, fn, group_params=False, parm_objs=None):
        self.prog = prog
        self.fn = fn
        self.flow = Flow(fn, prog, control=False, fields_env=False)
        self.group_params = group_params
        self.parm_objs = parm_objs      # optional: parameter name -> set of objects it stands for (set by the caller)
        self._atom_cache = {}

    def _objs_of_atom(self, a):
        if a[0] == "parm" and self.parm_objs is not None:
            return set(self.parm_objs.get(a[1], ()))
        if a[0] == "this" and getattr(self, "this_objs", None):
            return set(self.this_objs)
        o = obj_of_atom(a, self.group_params)
        return {o} if o else set()

    # --- facts --------------------------------------------------------------------------------
    def atomic_facts(self, node, include_beliefs=False):
        """[(cond node, polarity, Fact)] that hold whenever node is evaluated; compound facts stay compound"""
        out = []
        for fact in self.fn.facts_at(node):
            if fact.belief and not include_beliefs:
                continue
            for (c, p) in atoms_of(fact.cond, fact.pol):
                out.append((c, p, fact))
        return out

    def objs(self, node, facets=("size", "val", "content")):
        out = set()
        for a in self.flow.deps(node):
            if a[2] in facets:
                out |= self._objs_of_atom(a)
        return out

    def objs_of_atoms(self, atoms):
        out = set()
        for a in atoms:
            out |= self._objs_of_atom(a)
        return out

    def relating(self, cond, pol, obj_a, obj_b, len_facets=("size", "val")):
        """is (cond == pol) a comparison – or a disjunction of comparisons – each of which relates a length-like
        quantity of obj_a with one of obj_b?"""
        c = cond.strip()
        if c.k == "BinaryOperator" and c.op in ("||", "&&") and len(c.c) == 2:
            # (A || B) holds: every disjunct must relate;  !(A && B) holds: likewise for the negations
            if (c.op == "||" and pol) or (c.op == "&&" and not pol):
                return all(self.relating(x, pol, obj_a, obj_b, len_facets) for x in c.c)
            return any(self.relating(x, pol, obj_a, obj_b, len_facets) for x in c.c)
        if c.k == "UnaryOperator" and c.op == "!" and c.c:
            return self.relating(c.c[0], not pol, obj_a, obj_b, len_facets)
        if c.k == "DeclRefExpr" and c.decl and c.decl.get("k") == "local" and c.tc == "bool":
            from .ir import _single_def
            d = _single_def(c)
            if d is not None:
                return self.relating(d, pol, obj_a, obj_b, len_facets)
            return False
        c1 = c.strip_all()
        if c1.is_call() and c1.callee and c1.callee.get("repo") and c1.tc == "bool" and self.prog is not None \
                and c1.k not in ("CXXConstructExpr", "CXXTemporaryObjectExpr", "CXXOperatorCallExpr") and getattr(self, "_pred_depth", 0) < 2:
            # a predicate over the operands: _same_length(rhs, *this) { return !(a.size() != b.size()); }
            g = self.prog.functions.get(c1.callee.get("usr"))
            rets = [x for x in g.walk() if x.k == "ReturnStmt" and x.c] if g is not None else []
            if len(rets) == 1:
                args = c1.call_args()
                pmap = {}
                for i, prm in enumerate(g.params):
                    if i < len(args):
                        pmap[prm["n"]] = self.objs(args[i]) | self.base_objs(args[i])
                hctx = GuardCtx(self.prog, g, group_params=False, parm_objs=pmap)
                obj = c1.call_object() if c1.k == "CXXMemberCallExpr" else None
                if obj is not None and not c1.callee.get("static"):
                    hctx.this_objs = self.objs(obj) | self.base_objs(obj)
                elif c1.k == "CXXMemberCallExpr" and getattr(self, "this_objs", None):
                    hctx.this_objs = self.this_objs
                hctx._pred_depth = getattr(self, "_pred_depth", 0) + 1
                return hctx.relating(rets[0].c[0], pol, obj_a, obj_b, len_facets)
            return False
        cmp_ = as_comparison(c)
        if cmp_ is None:
            return False
        lhs, op, rhs = cmp_
        # pointer and iterator comparisons (x != y, __begin1 != __end1 of a range-for) say nothing about lengths
        if lhs.strip().tc == "ptr" or rhs.strip().tc == "ptr":
            return False
        if lhs.strip().tc not in ("int", "float", "bool", "enum") or rhs.strip().tc not in ("int", "float", "bool", "enum"):
            return False
        objs = self.objs(c, len_facets)
        return obj_a in objs and obj_b in objs

    def relating_guard_at(self, node, obj_a, obj_b, need_throw=False, big=None):
        """big: the object whose storage is indexed with a bound taken from the other one - a relating check that *definitely*
        bounds the wrong side ( size(big) <= size(other), size(big) < ..., or only `!=` ) is no guard for that access"""
        wrong = None
        one_sided = {}
        for fact in self.fn.facts_at(node):
            if fact.belief:
                continue
            if need_throw and not fact.rejects_by_throw:
                continue
            if self.relating(fact.cond, fact.pol, obj_a, obj_b):
                if big == "both":
                    # both operands are indexed with the other one's length (plan tables and input): only equality - or a lower
                    # and an upper check together - will do
                    d = self.direction_of(fact.cond, fact.pol, obj_a, obj_b)
                    if d in ("<", "<=", ">", ">=", "!="):
                        one_sided[d] = fact
                        if (one_sided.keys() & {"<", "<="}) and (one_sided.keys() & {">", ">="}):
                            return fact
                        wrong = fact
                        continue
                    return fact
                if big is not None and self.wrong_direction(fact.cond, fact.pol, big, obj_b if big == obj_a else obj_a):
                    wrong = fact
                    continue
                return fact
        g = self.helper_guard_before(node, obj_a, obj_b, need_throw)
        if g is None and wrong is not None:
            self.last_wrong_direction = wrong
        return g

    last_wrong_direction = None

    def direction_of(self, cond, pol, a, b):
        """the operator of (cond == pol) read as  size(a) op size(b), for a single comparison of plain size expressions with a on one
        side only and b on the other only; else None"""
        c = cond.strip()
        while c.k == "UnaryOperator" and c.op == "!" and c.c:
            c, pol = c.c[0].strip(), not pol
        if c.k == "DeclRefExpr" and c.decl and c.decl.get("k") == "local" and c.tc == "bool":
            from .ir import _single_def
            d = _single_def(c)
            return self.direction_of(d, pol, a, b) if d is not None else None
        if c.k == "BinaryOperator" and c.op in ("&&", "||"):
            return None
        cmp_ = as_comparison(c)
        if cmp_ is None:
            return None
        lhs, op, rhs = cmp_
        if not pol:
            op = NEG[op]
        ol, orr = self.objs(lhs, ("size", "val")), self.objs(rhs, ("size", "val"))
        if a in ol and b not in ol and b in orr and a not in orr:
            pass
        elif a in orr and b not in orr and b in ol and a not in ol:
            op = FLIP[op]
        else:
            return None
        for e in (lhs, rhs):
            if e.strip_all().k == "BinaryOperator":
                return None
        return op

    def wrong_direction(self, cond, pol, big, small):
        """True only when (cond == pol) is a single comparison  L op R  with the sizes of `big` on one side only and of `small` on
        the other side only, and op says big < small, big <= small or big != small.  Anything else: False (not known to be wrong)."""
        c = cond.strip()
        while c.k == "UnaryOperator" and c.op == "!" and c.c:
            c, pol = c.c[0].strip(), not pol
        if c.k == "DeclRefExpr" and c.decl and c.decl.get("k") == "local" and c.tc == "bool":
            from .ir import _single_def
            d = _single_def(c)
            return self.wrong_direction(d, pol, big, small) if d is not None else False
        if c.k == "BinaryOperator" and c.op in ("&&", "||"):
            return False
        cmp_ = as_comparison(c)
        if cmp_ is None:
            return False
        lhs, op, rhs = cmp_
        if not pol:
            op = NEG[op]
        ol, orr = self.objs(lhs, ("size", "val")), self.objs(rhs, ("size", "val"))
        if big in ol and small not in ol and small in orr and big not in orr:
            pass
        elif big in orr and small not in orr and small in ol and big not in ol:
            op = FLIP[op]
        else:
            return False
        # plain size expressions only: an offset or a scale on either side changes what the comparison means
        for e in (lhs, rhs):
            e0 = e.strip_all()
            if e0.k in ("BinaryOperator",):
                return False
        return op in ("<", "<=", "!=")

    # --- guards hoisted into helpers ----------------------------------------------------------
    def helper_guard_before(self, node, obj_a, obj_b, need_throw=False, depth=0):
        """a call, evaluated on every path before `node`, to a repository function that cannot complete normally unless a
        comparison relating obj_a and obj_b holds (e.g. a private _check_size(rhs) helper)"""
        if self.prog is None or depth > 1:
            return None
        for c in self.fn.walk():
            if not (c.is_call() and c.callee and c.callee.get("repo")):
                continue
            if c.k in ("CXXConstructExpr", "CXXTemporaryObjectExpr"):
                continue
            g = self.prog.functions.get(c.callee.get("usr"))
            if g is None or g.usr == self.fn.usr or len(g.params) > 4 or g.get("nodes", 0) > 400:
                continue
            if not self.fn.precedes(c, node):
                continue
            args = c.call_args()
            pmap = {}
            for i, prm in enumerate(g.params):
                if i < len(args):
                    pmap[prm["n"]] = self.objs(args[i]) | self.base_objs(args[i])
            obj = c.call_object()
            this_objs = set()
            if obj is not None and "cls" in c.callee and not c.callee.get("static"):
                this_objs = self.objs(obj) | self.base_objs(obj)
            key = (g.usr, tuple(sorted((k, tuple(sorted(v))) for k, v in pmap.items())), tuple(sorted(this_objs)), obj_a, obj_b, need_throw)
            cache = self.__class__._helper_cache
            if key not in cache:
                cache[key] = None
                hctx = GuardCtx(self.prog, g, group_params=False, parm_objs=pmap)
                hctx.this_objs = this_objs
                g.blocks
                for fact in g.facts_at_block(g.exit, normal_exit=True):
                    if fact.belief or not fact.rejects_by_throw:
                        continue
                    if hctx.relating(fact.cond, fact.pol, obj_a, obj_b):
                        cache[key] = fact
                        break
            if cache[key] is not None:
                return cache[key]
        return None

    _helper_cache = {}

    # --- accesses -----------------------------------------------------------------------------
    def subscripts(self):
        """unchecked element accesses: (node, base expr, index expr)"""
        for n in self.fn.walk():
            if n.k == "ArraySubscriptExpr" and len(n.c) == 2:
                yield n, n.c[0], n.c[1]
            elif n.k == "CXXOperatorCallExpr" and n.op in ("[]", "()") and len(n.c) == 3:
                ce = n.callee or {}
                cls = ce.get("cls", "")
                if "base_array<" in cls or "std::vector<" in cls or "std::array<" in cls or "initializer_list" in cls:
                    idx = n.c[2]
                    if idx.strip().tc in ("int", "bool", "enum"):
                        yield n, n.c[1], idx
            elif n.k == "UnaryOperator" and n.op == "*" and n.c and n.c[0].strip().tc == "ptr":
                # *(p + i)
                inner = n.c[0].strip_all()
                if inner.k == "BinaryOperator" and inner.op in ("+", "-") and len(inner.c) == 2:
                    a, b = inner.c
                    if a.tc == "ptr":
                        yield n, a, b
                    elif b.tc == "ptr":
                        yield n, b, a

    def index_vars(self, idx):
        ids = set()
        for x in idx.walk():
            if x.k == "DeclRefExpr" and x.decl and x.decl.get("k") in ("local", "binding"):
                ids.add(x.decl["id"])
        return ids

    def bound_atoms(self, node, idx):
        """atoms of every branch condition that holds at node and mentions a variable of the index expression"""
        ids = self.index_vars(idx)
        out = set()
        conds = []
        if not ids:
            return out, conds
        for fact in self.fn.facts_at(node):
            mentions = False
            for x in fact.cond.walk():
                if x.k == "DeclRefExpr" and x.decl and x.decl.get("id") in ids:
                    mentions = True
                    break
            if mentions:
                out |= self.flow.deps(fact.cond)
                conds.append(fact)
        return out, conds

    def base_objs(self, base):
        out = set()
        for r in self.flow.root(base):
            if r[0] == "parm":
                if self.parm_objs is not None:
                    out |= set(self.parm_objs.get(r[1], ()))
                else:
                    out.add(("INPUT",) if self.group_params else ("parm", r[1]))
            elif r[0] == "this":
                out.add(("this",))
            elif r[0] == "global":
                out.add(("global", r[1]))
            elif r[0] == "local":
                out.add(("local", r[1]))
        return out
