"""Run the registered checks against a patched scratch copy of the repository (never against /repo itself).

Used by  bin/tryseed <patch.diff> [props...]   – evaluate a seeded change;
         the thorough tier                      – regression catalogue: every repaired defect, re-introduced by
                                                  reverting its "fix:" commit on a scratch copy, must be reported again,
                                                  and behaviour-preserving variants must stay silent.
Scratch copies live in a mktemp directory outside /repo and /verif and are removed before returning."""
import json
import os
import re
import shutil
import subprocess
import tempfile

from . import build, core, driver
from .core import VIOLATED, INHERITS, UNMODELLED, DISCHARGED


def scratch_copy(root=None):
    root = root or build.repo_root()
    tmp = tempfile.mkdtemp(prefix="dsplint-scratch-")
    for d in ("include", "lib", "cmake", "tests", "examples", "benchs"):
        src = os.path.join(root, d)
        if os.path.isdir(src):
            shutil.copytree(src, os.path.join(tmp, d))
    for f in ("CMakeLists.txt",):
        shutil.copy2(os.path.join(root, f), os.path.join(tmp, f))
    return tmp


def apply_patch(tmp, patch_text, reverse=False):
    cmd = ["git", "apply", "--whitespace=nowarn", "-p1"]
    if reverse:
        cmd.append("-R")
    if isinstance(patch_text, str):
        patch_text = patch_text.encode()      # bytes end to end: 19 files of the repository have CRLF line endings
    r = subprocess.run(cmd, cwd=tmp, input=patch_text, stdout=subprocess.PIPE, stderr=subprocess.PIPE)
    if r.returncode != 0:
        r2 = subprocess.run(["patch", "-p1", "--binary", "--no-backup-if-mismatch"] + (["-R"] if reverse else []), cwd=tmp,
                            input=patch_text, stdout=subprocess.PIPE, stderr=subprocess.PIPE)
        if r2.returncode != 0:
            return False, (r.stderr + r2.stdout + r2.stderr).decode(errors="replace")[-800:]
    return True, ""


def run_props(root, props):
    """{prop: {"violations": [(rule, key, where, reason)], "broken": [...], "rc": 0|1|2}}"""
    from . import props as registry
    findings, _ = core.load_known_findings()
    out = {}
    for p in props:
        if p not in registry.PROPS:
            continue
        try:
            a = driver.analyse(p, "quick", root=root)
        except build.AnalysisBroken as e:
            out[p] = {"violations": [], "broken": [str(e)[:600]], "rc": 2}
            continue
        known = {(f["rule"], f["key"]) for f in findings if f["property"] == p}
        viol = [o for o in a["obs"].values() if o.verdict == VIOLATED and (o.rule, o.key) not in known]
        rc = 1 if viol else (2 if a["broken"] else 0)
        out[p] = {"violations": [(o.rule, o.key, o.where, o.reason[:300]) for o in sorted(viol, key=lambda o: o.key)],
                  "broken": a["broken"], "rc": rc}
    return out


def try_patch(patch_text, props, reverse=False, root=None):
    tmp = scratch_copy(root)
    try:
        ok, err = apply_patch(tmp, patch_text, reverse)
        if not ok:
            return {"applied": False, "error": err}
        res = run_props(tmp, props)
        # make paths in reports relative to the scratch root
        for p, r in res.items():
            r["violations"] = [(a, b, c.replace(tmp + "/", ""), d.replace(tmp + "/", "")) for (a, b, c, d) in r["violations"]]
            r["broken"] = [b.replace(tmp, "<scratch>") for b in r["broken"]]
        return {"applied": True, "results": res}
    finally:
        shutil.rmtree(tmp, ignore_errors=True)


def fixed_commits():
    """[(property, commit, text)] from known_findings.txt"""
    _, fixed = core.load_known_findings()
    return [(f["property"], f["commit"], f["what"]) for f in fixed]


def revert_patch(commit, root=None):
    root = root or build.repo_root()
    r = subprocess.run(["git", "-C", root, "diff", "--binary", commit + "^", commit, "--", "include", "lib"], stdout=subprocess.PIPE,
                       stderr=subprocess.PIPE)
    if r.returncode != 0 or not r.stdout.strip():
        return None
    return r.stdout
