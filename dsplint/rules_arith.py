"""N1 INT-DIV-IN-REAL (C14, C20) and N2 NARROW-PRODUCT (C15)"""
import re

from .core import RuleResult, DISCHARGED, VIOLATED, UNMODELLED
from .rules_state import fkey

# which property a file's integer divisions are reported under
N1_ANCHORS = [
    (re.compile(r"include/dsplib/tuner\.h$|lib/hilbert\.cpp$|include/dsplib/hilbert\.h$"), "C14"),
    (re.compile(r"include/dsplib/audio/[^/]+\.h$|lib/agc\.cpp$|include/dsplib/agc\.h$|lib/ma-filter\.h$"), "C20"),
]
ROUNDING_CALLS = re.compile(r"^(std::)?(floor|ceil|round|trunc|lround|llround|nearbyint|rint|floorf|ceilf|roundf|truncf)$")
INT_TO_FLOAT = "IntegralToFloating"
TRANSPARENT_BIN = {"+", "-", "*"}


def _anchor_prop(relpath, fixture):
    if fixture:
        return "C20" if "c20" in relpath.lower() else "C14"
    for (rx, prop) in N1_ANCHORS:
        if rx.search(relpath):
            return prop
    return None


def _is_int(n):
    return n.tc in ("int", "bool", "enum")


def rule_N1(prog, fixture=False):
    res = RuleResult("N1", "no quotient of two integer operands flows into a real-valued formula or comparison unless the "
                           "truncation is explicit (stored in an integer variable, explicit integer cast, floor/ceil/round/trunc)")
    files = set()
    for f in sorted(prog.functions.values(), key=lambda f: (f.file, f.line, f.name)):
        rel = prog.rel(f.file)
        prop = _anchor_prop(rel, fixture)
        if prop is None:
            continue
        if f.get("implicit"):
            continue
        files.add(rel)
        idx = 0
        for n in f.walk():
            if n.k != "BinaryOperator" or n.op != "/" or len(n.c) != 2:
                continue
            lhs, rhs = n.c
            idx += 1
            key = "N1:%s:div%d" % (fkey(f), idx)
            where = "%s:%d" % (rel, n.line)
            what = "%s in %s" % (n.text(), f.short)
            optypes = "%s / %s" % (lhs.strip().type, rhs.strip().type)
            extra = {"props": [prop], "operand_types": optypes}
            if not (_is_int(lhs) and _is_int(rhs) and _is_int(n)):
                res.add(key, DISCHARGED, where, what, "real-valued division (%s)" % optypes, func=f.name, extra=extra)
                continue
            verdict, why = _classify_int_div(n)
            res.add(key, verdict, where, what, why + " (%s)" % optypes, func=f.name, extra=extra)
    res.stats["files"] = sorted(files)
    if not fixture:
        need = {"C14": False, "C20": False}
        for o in res.obs:
            for p in o.extra.get("props", []):
                need[p] = True
        for p, seen in need.items():
            if not seen:
                res.broken.append("anchor vanished: no division expression found in the files anchored to %s" % p)
    return res


def _classify_int_div(n):
    cur = n
    p = n.parent
    while p is not None:
        k = p.k
        if k == "ImplicitCastExpr":
            ck = p.get("ck")
            if ck == INT_TO_FLOAT:
                # explicit rounding idiom: floor(a / b) & co.
                gp = p.parent
                if gp is not None and gp.is_call() and gp.callee and ROUNDING_CALLS.match(gp.callee.get("qn", "")):
                    return DISCHARGED, "integer quotient passed to %s: truncation is explicit" % gp.callee.get("qn")
                return VIOLATED, ("integer-truncated quotient is converted to floating point inside a real-valued expression: "
                                  "%s" % _enclosing_text(p))
            if ck in ("IntegralCast", "IntegralToBoolean", "NoOp", "LValueToRValue"):
                cur, p = p, p.parent
                continue
            return DISCHARGED, "integer quotient used as an integer (%s)" % ck
        if k in ("CXXStaticCastExpr", "CStyleCastExpr", "CXXFunctionalCastExpr"):
            if p.tc == "float":
                return VIOLATED, "integer-truncated quotient is cast to %s: %s" % (p.type, _enclosing_text(p))
            return DISCHARGED, "explicit cast to %s: truncation is explicit" % p.type
        if k == "BinaryOperator" and p.op in TRANSPARENT_BIN and _is_int(p):
            cur, p = p, p.parent
            continue
        if k == "UnaryOperator" and p.op in ("-", "+") and _is_int(p):
            cur, p = p, p.parent
            continue
        if k == "ConditionalOperator" and _is_int(p) and cur.id != (p.role("cond").id if p.role("cond") else -1):
            cur, p = p, p.parent
            continue
        break
    return DISCHARGED, "integer quotient used in integer context"


def _enclosing_text(n):
    p = n
    for _ in range(3):
        if p.parent is not None and p.parent.k in ("BinaryOperator", "ImplicitCastExpr", "UnaryOperator", "VarDecl", "CompoundAssignOperator"):
            p = p.parent
    return p.text()


# ------------------------------------------------------------------------------------------------
PRIME_API = ["dsplib::isprime", "dsplib::factor", "dsplib::nextprime", "dsplib::primes"]
REL_OPS = {"<", "<=", ">", ">=", "==", "!="}


def _underlying_bits(n):
    """value bits of the operand before any (implicit or explicit) integral conversion"""
    x = n
    while x.k in ("ImplicitCastExpr", "CXXStaticCastExpr", "CStyleCastExpr", "CXXFunctionalCastExpr") and x.c and x.get("ck") in (
            "IntegralCast", "LValueToRValue", "NoOp") and x.c[0].tc in ("int", "bool", "enum"):
        x = x.c[0]
    w = x.get("w")
    if w is None:
        return None
    return w - (0 if x.get("u") else 1)


def _is_constant(n):
    x = n.strip_all()
    if x.k in ("IntegerLiteral", "CharacterLiteral", "CXXBoolLiteralExpr"):
        return True
    if x.k == "DeclRefExpr" and x.decl and x.decl.get("k") == "enumc":
        return True
    if x.k == "UnaryOperator" and x.c:
        return _is_constant(x.c[0])
    return False


def _same_var(a, b):
    a, b = a.strip_all(), b.strip_all()
    while a.k in ("CXXFunctionalCastExpr", "CXXStaticCastExpr", "CStyleCastExpr", "ImplicitCastExpr") and a.c:
        a = a.c[0].strip_all()
    while b.k in ("CXXFunctionalCastExpr", "CXXStaticCastExpr", "CStyleCastExpr", "ImplicitCastExpr") and b.c:
        b = b.c[0].strip_all()
    return a.k == "DeclRefExpr" and b.k == "DeclRefExpr" and a.decl and b.decl and a.decl.get("id") == b.decl.get("id")


def _square_bound_inclusive(cmp_node, prods):
    """trial division / sieving must still visit d with d*d == n: a continue-condition d*d < n, or a break-condition
    d*d >= n, skips the square root of a perfect square (9, 25, 49 ... are then classified as primes)"""
    sq = [x for x in prods if _same_var(x.c[0], x.c[1])]
    if not sq:
        return None
    x = sq[0]
    lhs, rhs = cmp_node.c
    on_left = any(y.id == x.id for y in lhs.walk())
    op = cmp_node.op
    if not on_left:
        op = {"<": ">", ">": "<", "<=": ">=", ">=": "<=", "==": "==", "!=": "!="}[op]
    # role of the comparison: loop condition (continue while true) or the condition of an if that leaves the loop
    role = None
    p = cmp_node.parent
    child = cmp_node
    while p is not None and p.k in ("ImplicitCastExpr",):
        child, p = p, p.parent
    if p is not None and p.k in ("WhileStmt", "ForStmt", "DoStmt") and p.role("cond") is not None and p.role("cond").id == child.id:
        role = "continue"
    elif p is not None and p.k == "IfStmt" and p.role("cond") is not None and p.role("cond").id == child.id:
        then = p.role("then")
        if then is not None and any(y.k in ("BreakStmt", "ReturnStmt") for y in then.walk()):
            role = "leave"
    if role == "continue" and op == "<":
        return "%s continues only while the square is strictly below the argument: the divisor whose square equals it is never tried" % cmp_node.text()
    if role == "leave" and op == ">=":
        return "%s leaves the search as soon as the square reaches the argument: the divisor whose square equals it is never tried" % cmp_node.text()
    return None


def _quotient_times_divisor(q, d):
    """q is  X / d  (directly, or a never re-assigned local initialised that way) for the very same unsigned, unwritten d"""
    from .ir import _single_def
    q0, d0 = q.strip_all(), d.strip_all()
    if q0.k == "DeclRefExpr" and q0.decl and q0.decl.get("k") == "local":
        init = _single_def(q0)
        if init is None:
            return False
        q0 = init.strip_all()
    while q0.k in ("ParenExpr", "CXXStaticCastExpr", "CStyleCastExpr", "CXXFunctionalCastExpr", "ImplicitCastExpr") and len(q0.c) == 1:
        q0 = q0.c[0].strip_all()
    if not (q0.k == "BinaryOperator" and q0.op == "/" and len(q0.c) == 2 and q0.get("u")):
        return False
    dd = q0.c[1].strip_all()
    return dd.k == "DeclRefExpr" and d0.k == "DeclRefExpr" and dd.decl and d0.decl and dd.decl.get("id") == d0.decl.get("id")


def rule_N2(prog, fixture=False):
    res = RuleResult("N2", "in every function reachable from isprime/factor/nextprime/primes, a product of two non-constant "
                           "integers that feeds a comparison or loop condition is computed in a type wide enough to hold it")
    roots = []
    for qn in PRIME_API:
        roots += prog.funcs_named(qn)
    if not roots:
        res.broken.append("anchor vanished: none of %s is defined" % ", ".join(PRIME_API))
        return res
    reach = {}
    work = [f.usr for f in roots]
    while work:
        u = work.pop()
        if u in reach:
            continue
        f = prog.functions.get(u)
        if f is None:
            continue
        reach[u] = f
        for (c, l) in prog.resolved_callees(u):
            if c in prog.functions and c not in reach:
                work.append(c)
    # restrict to the prime machinery itself (the file that defines the API), plus whatever it calls in the repo
    api_files = {f.file for f in roots}
    funcs = [f for f in reach.values() if f.file in api_files]
    # the range checks of the slice classes decide from comparisons as well: a product of two caller-chosen ints in one of them
    # ( (i2 - i1) * step < 0 ) wraps for long spans with large steps and the check decides the wrong way
    slice_funcs = [f for f in prog.functions.values() if not f.get("implicit") and prog.rel(f.file).endswith("include/dsplib/slice.h")
                   and f.usr not in reach]
    slice_usrs = {f.usr for f in slice_funcs}
    funcs = funcs + slice_funcs
    res.stats["functions"] = sorted(f.short for f in funcs)
    cmp_sites = 0
    for f in sorted(funcs, key=lambda f: (f.line, f.name)):
        rel = prog.rel(f.file)
        idx = 0
        for n in f.walk():
            if n.k != "BinaryOperator" or n.op not in REL_OPS or len(n.c) != 2:
                continue
            # every relational comparison is an instance; those without a product discharge trivially
            prods = []
            for side in n.c:
                for x in side.walk():
                    if x.k == "BinaryOperator" and x.op == "*" and len(x.c) == 2 and x.tc == "int":
                        prods.append(x)
            idx += 1
            cmp_sites += 1
            key = "N2:%s:cmp%d" % (fkey(f), idx)
            where = "%s:%d" % (rel, n.line)
            what = "%s in %s" % (n.text(), f.short)
            px = {"props": ["C04", "C05"] if f.usr in slice_usrs else ["C15", "C05"]}
            if not prods:
                res.add(key, DISCHARGED, where, what, "no product in the bound (division form or plain comparison)", func=f.name, extra=px)
                continue
            bad = []
            for x in prods:
                a, b = x.c
                if _is_constant(a) or _is_constant(b):
                    continue
                if _quotient_times_divisor(a, b) or _quotient_times_divisor(b, a):
                    continue          # (n / d) * d <= n: the back-multiplication of a quotient cannot exceed the dividend
                wa, wb = _underlying_bits(a), _underlying_bits(b)
                have = x.get("w", 0) - (0 if x.get("u") else 1)
                if wa is None or wb is None:
                    continue
                # the arguments are 32-bit: a product computed in 64 value bits (or more) holds any product of two
                    # trial divisors, whatever the declared width of the operands
                if wa + wb > have and have < 63:
                    bad.append("%s is computed in %s (%d value bits) but its operands carry %d + %d bits"
                               % (x.text(), x.type, have, wa, wb))
            incl = _square_bound_inclusive(n, prods)
            if bad:
                res.add(key, VIOLATED, where, what, "; ".join(bad) + ": the bound wraps for large 32-bit arguments", func=f.name, extra=px)
            elif incl is not None and f.usr not in slice_usrs:
                res.add(key, VIOLATED, where, what, incl, func=f.name, extra=px)
            else:
                res.add(key, DISCHARGED, where, what, "product computed in a sufficiently wide type; square bound is inclusive", func=f.name, extra=px)
    res.stats["comparison_sites"] = cmp_sites
    return res


# ------------------------------------------------------------------------------------------------
# N5 INTEGER-ACCUMULATOR: std::accumulate & co. over real samples do not sum into an integer  (C12, C14, C16, C19, C20, C08)
N5_FILES = [
    (re.compile(r"include/dsplib/(lms|rls)\.h$"), "C12"),
    (re.compile(r"include/dsplib/tuner\.h$|lib/hilbert\.cpp$|include/dsplib/hilbert\.h$"), "C14"),
    (re.compile(r"lib/corr\.cpp$|lib/medfilt\.cpp$|lib/math\.cpp$"), "C16"),
    (re.compile(r"lib/awgn\.cpp$|lib/snr\.cpp$|lib/random\.cpp$"), "C19"),
    (re.compile(r"include/dsplib/audio/[^/]+\.h$|lib/agc\.cpp$|lib/ma-filter\.h$"), "C20"),
    (re.compile(r"lib/resample/"), "C08"),
]
ACCUMULATORS = {"std::accumulate": 2, "std::reduce": 2, "std::inner_product": 3, "std::transform_reduce": None}


def rule_N5(prog, fixture=False):
    res = RuleResult("N5", "the initial value of std::accumulate / std::reduce / std::inner_product over floating-point elements is "
                           "itself floating point: with an integer literal (`0`) the accumulator has type int and every partial sum is "
                           "truncated")
    n = 0
    for f in sorted(prog.functions.values(), key=lambda f: (f.file, f.line, f.name)):
        if f.get("implicit") or f.file.endswith("coverage.cc"):
            continue
        rel = prog.rel(f.file)
        props = [p for (rx, p) in N5_FILES if rx.search(rel)]
        if fixture:
            props = ["C12"]
        if not props:
            continue
        idx = 0
        for x in f.walk():
            if not (x.k == "CallExpr" and x.callee and x.callee.get("qn") in ACCUMULATORS):
                continue
            pos = ACCUMULATORS[x.callee["qn"]]
            args = x.call_args()
            if pos is None or pos >= len(args):
                continue
            idx += 1
            n += 1
            init = args[pos].strip()
            # element type: the pointee / value type of the first iterator argument
            it = args[0].strip()
            ety = (it.type or "")
            floating = ("double" in ety or "float" in ety or "real_t" in ety or "cmplx_t" in ety)
            key = "N5:%s:acc%d" % (fkey(f), idx)
            where = "%s:%d" % (rel, x.line)
            what = "%s in %s" % (x.text()[:70], f.short)
            extra = {"props": props}
            if init.tc in ("int", "bool", "enum") and floating:
                res.add(key, VIOLATED, where, what,
                        "the elements are %s but the initial value %s has type %s: the sum is carried in an integer and truncated at every step"
                        % (ety.replace("const ", "").strip(), init.text(), init.type), func=f.name, extra=extra)
            elif floating:
                res.add(key, DISCHARGED, where, what, "accumulates in %s" % init.type, func=f.name, extra=extra)
            else:
                res.add(key, DISCHARGED, where, what, "integer elements", func=f.name, extra=extra)
    res.stats["accumulate_calls"] = n
    return res


# ------------------------------------------------------------------------------------------------
# N6 REAL-THROUGH-INT: a real quantity is not squeezed through an integer parameter on its way to a real formula
def rule_N6(prog, fixture=False):
    res = RuleResult("N6", "an integer parameter that receives a floating-point argument at every call site (implicit conversion) and "
                           "is itself used only after conversion back to floating point serves no integer purpose: the fraction of "
                           "the caller's value is dropped on the way (real_t snr -> int snr -> pow(10, -snr / 20.0))")
    n = 0
    for g in sorted(prog.functions.values(), key=lambda f: (f.file, f.line, f.name)):
        if g.get("implicit") or g.file.endswith("coverage.cc"):
            continue
        rel = prog.rel(g.file)
        props = [p for (rx, p) in N5_FILES if rx.search(rel)]
        if fixture:
            props = ["C19"]
        if not props:
            continue
        for pi, prm in enumerate(g.params):
            if prm.get("tc") != "int" or prm.get("ref") or prm.get("ptr"):
                continue
            uses = [x for x in g.walk() if x.k == "DeclRefExpr" and x.decl and x.decl.get("k") == "parm" and x.decl.get("id") == prm.get("id")]
            if not uses:
                continue
            all_real = True
            for u in uses:
                p = u.parent
                ok = False
                while p is not None:
                    if p.k == "ImplicitCastExpr" and p.get("ck") in ("LValueToRValue", "NoOp"):
                        p = p.parent
                        continue
                    if p.k == "ParenExpr" or (p.k == "UnaryOperator" and p.op in ("-", "+")):
                        p = p.parent
                        continue
                    if p.k in ("ImplicitCastExpr", "CXXStaticCastExpr", "CStyleCastExpr", "CXXFunctionalCastExpr") and (p.get("ck") == "IntegralToFloating" or p.tc == "float"):
                        ok = True
                    break
                if not ok:
                    all_real = False
                    break
            if not all_real:
                continue
            # call sites
            sites = []
            for (caller, c) in prog.callers_of(g.usr):
                cn = caller.nodes.get(c["node"])
                if cn is None or caller.file.endswith("coverage.cc"):
                    continue
                args = cn.call_args()
                if pi < len(args):
                    sites.append((caller, cn, args[pi]))
            if not sites:
                continue
            n += 1
            key = "N6:%s:%s" % (fkey(g), prm["n"])
            where = "%s:%d" % (rel, g.line)
            what = "%s %s of %s" % (prm.get("t"), prm["n"], g.short)
            extra = {"props": props}

            def implicit_f2i(a):
                a0 = a
                while a0 is not None and a0.k in ("ImplicitCastExpr",) and a0.get("ck") in ("LValueToRValue", "NoOp") and a0.c:
                    a0 = a0.c[0]
                return a0 is not None and a0.k == "ImplicitCastExpr" and a0.get("ck") == "FloatingToIntegral"
            if all(implicit_f2i(a) for (_, _, a) in sites):
                (caller, cn, a) = sites[0]
                res.add(key, VIOLATED, where, what,
                        "every caller passes a floating-point value (%s at %s:%d) and %s uses the parameter only after converting it "
                        "back to floating point: the integer type in between only truncates" % (a.text()[:40], prog.rel(caller.file), cn.line, g.short),
                        func=g.name, extra=extra)
            else:
                res.add(key, DISCHARGED, where, what, "receives integer arguments", func=g.name, extra=extra)
    res.stats["integer_parameters_used_as_reals"] = n
    # single precision in a double-precision build: with real_t = double nothing in these files has a reason to be `float`; a
    # float accumulator, a std::greater<float> comparator or a float temporary silently drops 29 bits of every sample that
    # passes through it
    cfg = getattr(prog, "config", None)
    if not (cfg is not None and getattr(cfg, "float32", False)):
        n_float = 0
        for g in sorted(prog.functions.values(), key=lambda f: (f.file, f.line, f.name)):
            if g.get("implicit") or g.file.endswith("coverage.cc"):
                continue
            rel = prog.rel(g.file)
            props = [p for (rx, p) in N5_FILES if rx.search(rel)]
            if fixture:
                props = ["C19"]
            if not props:
                continue
            n_float += 1
            hit = None
            for x in g.walk():
                t = x.type or ""
                if re.search(r"(^|[^\w])float([^\w]|$)", t) and not re.search(r"\(.*float.*\)", t):
                    hit = x
                    break
            if hit is not None:
                res.add("N6:float:%s" % fkey(g), VIOLATED, "%s:%d" % (rel, hit.line), "%s works in double precision" % g.short,
                        "`%s` has type %s although real_t is double in this build: values that pass through it keep 24 bits of "
                        "mantissa, so results depend on the magnitude of the data (a comparison of neighbouring samples, a sum, "
                        "a threshold) in a way the double-precision contract does not allow" % (hit.text()[:60], hit.type),
                        func=g.name, extra={"props": props})
        res.stats["functions_scanned_for_float"] = n_float
    return res
