import sys
sys.path.insert(0,'/verif')
from dsplint import build, ir
import importlib
mod, fn = sys.argv[1], sys.argv[2]
files, info = build.extract()
p = ir.Program.load(files)
p.config = build.Config()
m = importlib.import_module('dsplint.'+mod)
res = getattr(m, fn)(p)
print(res.stats)
print(res.broken)
show = sys.argv[3] if len(sys.argv)>3 else 'violated'
for o in res.obs:
    if show=='all' or o.verdict==show or (show=='violated' and o.verdict=='unmodelled'):
        print(o.verdict, o.key, '|', o.where, '|', o.what, '|', o.reason[:400], o.extra.get('props',''))
print(len(res.obs), 'obligations')
